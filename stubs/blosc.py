"""Stub of python-blosc for offline verification: zlib payload in a 16-byte pseudo header."""
import zlib, ctypes, struct, sys, types
SHUFFLE, BITSHUFFLE, NOSHUFFLE = 1, 2, 0
def set_nthreads(n): return 1
def set_blocksize(n): pass
def compress(data, typesize=8, clevel=1, shuffle=SHUFFLE, cname='zstd', **kw):
    raw = bytes(memoryview(data).cast('B')) if not isinstance(data,(bytes,bytearray)) else bytes(data)
    return struct.pack('<II', 0xB105C, len(raw)) + zlib.compress(raw, 1)
def decompress_ptr(buf, address, **kw):
    b = bytes(buf)
    magic, n = struct.unpack('<II', b[:8]); assert magic == 0xB105C
    raw = zlib.decompress(b[8:]); assert len(raw) == n
    ctypes.memmove(address, raw, n)
    return n
