"""Deductive contracts for the two-pass HOD kernel GRAND_HOD.gen_cent (used by C09, C10, C11).

Spec (from the C09 statement; no thread count in it).  Markers stacked LRG -> ELG -> QSO:
    MK_L(i) = [LRG] n_cen_LRG(mass_i, logM_cut_L + Ac_L*deltac_i + Bc_L*fenv_i, sigma_L) * ic_L * multis_i
    MK_E(i) = MK_L(i) + [ELG] N_cen_ELG_v1(mass_i, p_max, Q, logM_cut_E + Ac_E*deltac_i + Bc_E*fenv_i + Cc_E*shear_i, sigma_E, gamma_E) * ic_E * multis_i
    MK_Q(i) = MK_E(i) + [QSO] N_cen_QSO(mass_i, logM_cut_Q + Ac_Q*deltac_i + Bc_Q*fenv_i, sigma_Q) * ic_Q * multis_i
with the occupation functions as NAMED UNINTERPRETED functions (the property defines the widths as "the package's mean-occupation
functions").  CODE(i) = 1 / 2 / 3 / 0 by comparing the stored random with the markers; the tie rule (<= or <) is unconstrained
by the property and is therefore READ FROM THE SOURCE (the ghost step takes the code's choice as witness).
RK(c, i) = #{q < i : CODE(q) = c}.  Output of tracer c: row RK(c, q) of every column carries host q (id, mass, position,
v = v_h + alpha_c * dv, z' = wrap(z + v_z / velz2kms) with RSD), for every host with CODE(q) = c; keep[q] = CODE(q);
array lengths RK(c, H).  Count pass and fill pass agree by construction of the proof (gstart[t, c] = RK(c, hstart[t])).
"""
import ast
import os

import z3

from pyvc.engine import FnSpec, LoopSpec, CalleeSpec, SV, Arr, DT, I, fresh

HOD = 'abacusnbody/hod/GRAND_HOD.py'
R = z3.RealSort()
NCL = z3.Function('n_cen_LRG', R, R, R, R)
NCE = z3.Function('N_cen_ELG_v1', R, R, R, R, R, R, R, R)
NCQ = z3.Function('N_cen_QSO', R, R, R, R)
CODEF = z3.Function('CODE', z3.IntSort(), z3.IntSort())
RKF = z3.Function('RK', z3.IntSort(), z3.IntSort(), z3.IntSort())

KEYS = dict(L=['logM_cut', 'sigma', 'ic', 'alpha_c', 'Acent', 'Bcent'],
            E=['p_max', 'Q', 'logM_cut', 'sigma', 'gamma', 'alpha_c', 'Acent', 'Bcent', 'Ccent', 'ic'],
            Q=['logM_cut', 'sigma', 'alpha_c', 'Acent', 'Bcent', 'ic'])


def tie_op(repo):
    """the comparison the code uses between the stored random and a marker (ties are unconstrained by the property)"""
    tree = ast.parse(open(os.path.join(repo, HOD)).read())
    fn = [n for n in tree.body if isinstance(n, ast.FunctionDef) and n.name == 'gen_cent'][0]
    ops = set()
    for n in ast.walk(fn):
        if isinstance(n, ast.Compare) and ast.unparse(n.left) == 'randoms[i]' and 'marker' in ast.unparse(n.comparators[0]):
            ops.add(type(n.ops[0]).__name__)
    if ops == {'LtE'}:
        return '<='
    if ops == {'Lt'}:
        return '<'
    return None


def hod_dict(p):
    return {k: SV(z3.Real(f'{p}_{k}'), 'real') for k in KEYS[p]}


def make_ghosts(want, op, dicts):
    def ghosts(g):
        eng = g.eng
        A = lambda nm: g.arr_term(nm)       # noqa: E731
        mass, dc, fe, sh, mu, rnd = A('mass'), A('deltac'), A('fenv'), A('shear'), A('multis'), A('randoms')
        S = lambda a, i: z3.Select(a, i)       # noqa: E731
        L, E, Q = dicts

        def mkL(i):
            if not want[0]:
                return z3.RealVal(0)
            return NCL(S(mass, i), L['logM_cut'].t + L['Acent'].t * S(dc, i) + L['Bcent'].t * S(fe, i), L['sigma'].t) * L['ic'].t * S(mu, i)

        def mkE(i):
            if not want[1]:
                return mkL(i)
            return mkL(i) + NCE(S(mass, i), E['p_max'].t, E['Q'].t, E['logM_cut'].t + E['Acent'].t * S(dc, i) + E['Bcent'].t * S(fe, i) + E['Ccent'].t * S(sh, i),
                                E['sigma'].t, E['gamma'].t, z3.RealVal(1)) * E['ic'].t * S(mu, i)

        def mkQ(i):
            if not want[2]:
                return mkE(i)
            return mkE(i) + NCQ(S(mass, i), Q['logM_cut'].t + Q['Acent'].t * S(dc, i) + Q['Bcent'].t * S(fe, i), Q['sigma'].t) * Q['ic'].t * S(mu, i)
        cmp_ = (lambda a, b: a <= b) if op == '<=' else (lambda a, b: a < b)
        # the markers are opaque symbols with definitions; a disabled tracer re-uses the previous marker SYMBOL, so its slice is
        # propositionally empty (the fill pass never enters the branch of a disabled tracer)
        ML = g.define('MKL', ['int'], 'real', lambda i: SV(mkL(i.t), 'real'))
        ME = g.define('MKE', ['int'], 'real', lambda i: SV(mkE(i.t), 'real')) if want[1] else ML
        MQ = g.define('MKQ', ['int'], 'real', lambda i: SV(mkQ(i.t), 'real')) if want[2] else ME
        if not want[1]:
            g.fn('MKE', eng.ghost['MKL'])
        if not want[2]:
            g.fn('MKQ', eng.ghost['MKE'])
        # a disabled tracer has a zero-width slice (its marker equals the previous one, or the constant 0 < randoms for the first):
        # code c can only occur for an enabled tracer, so CODE is the nested comparison over the enabled ones
        def code(i):
            e = z3.IntVal(0)
            for cc, M in reversed([(1, ML), (2, ME), (3, MQ)]):
                if want[cc - 1]:
                    e = z3.If(cmp_(S(rnd, i), M(i)), cc, e)
            return e
        g.define('CODED', ['int'], 'int', lambda i: SV(z3.simplify(code(i.t)), 'int'))
        CD = eng.ghost['CODED']
        q, c, a, b = z3.Ints('hq hc ha hb')
        # CODE is the symbol the counting lemmas talk about; CODED its definition
        g.fn('CODE', lambda i: (CD(i), SV(CODEF(z3.simplify(eng.tosv(i).t)), 'int'))[1])
        g.axiom(z3.ForAll([q], z3.And(0 <= CODEF(q), CODEF(q) <= 3), patterns=[CODEF(q)]))
        g.fn('RK', lambda cc, i: SV(RKF(z3.simplify(eng.tosv(cc).t), z3.simplify(eng.tosv(i).t)), 'int'))
        g.axiom(z3.ForAll([c], RKF(c, 0) == 0, patterns=[RKF(c, 0)]))
        g.axiom(z3.ForAll([c, q], z3.Implies(q >= 0, RKF(c, q + 1) == RKF(c, q) + z3.If(CODEF(q) == c, 1, 0)), patterns=[RKF(c, q + 1)]))
        # lemmas proved by induction in prove_lemmas(): monotone, bounded
        g.axiom(z3.ForAll([c, a, b], z3.Implies(z3.And(0 <= a, a <= b), z3.And(0 <= RKF(c, a), RKF(c, a) <= RKF(c, b))),
                          patterns=[z3.MultiPattern(RKF(c, a), RKF(c, b))]))
        # lemma RK_strict (proved in prove_lemmas): hosts with the same code get increasing rows
        g.axiom(z3.ForAll([c, a, b], z3.Implies(z3.And(0 <= a, a < b, CODEF(a) == c), RKF(c, a) < RKF(c, b)),
                          patterns=[z3.MultiPattern(RKF(c, a), RKF(c, b))]))
        g.unfolder('RK', lambda cc, i: [z3.Implies(i.t >= 0, RKF(cc.t, i.t + 1) == RKF(cc.t, i.t) + z3.If(CODEF(i.t) == cc.t, 1, 0))])
        # the opaque definition links the two symbols on demand
        g.unfolder('CODE', lambda i: [CODEF(i.t) == eng.ghost['CODED'](i).t])
    return ghosts


def prove_lemmas(run):
    c, a, b, k = z3.Ints('c a b k')
    rec = [z3.ForAll([c], RKF(c, 0) == 0), z3.ForAll([c, k], z3.Implies(k >= 0, RKF(c, k + 1) == RKF(c, k) + z3.If(CODEF(k) == c, 1, 0)), patterns=[RKF(c, k + 1)])]
    P = lambda bb: z3.ForAll([c, a], z3.Implies(z3.And(0 <= a, a <= bb), z3.And(0 <= RKF(c, a), RKF(c, a) <= RKF(c, bb))))      # noqa: E731
    run.lemma('lemma.RK_mono.base', rec, P(z3.IntVal(0)))
    run.lemma('lemma.RK_mono.step', rec + [b >= 0, P(b)], P(b + 1))
    mono = z3.ForAll([c, a, b], z3.Implies(z3.And(0 <= a, a <= b), z3.And(0 <= RKF(c, a), RKF(c, a) <= RKF(c, b))), patterns=[z3.MultiPattern(RKF(c, a), RKF(c, b))])
    run.lemma('lemma.RK_strict', rec + [mono, 0 <= a, a < b, CODEF(a) == c, RKF(c, a + 1) <= RKF(c, b)], RKF(c, a) < RKF(c, b))
    # every row below RK(c, n) is the row of exactly one host (onto by induction on n; one-to-one is RK_strict): together with the
    # row postcondition this is "no output row is left unwritten or written twice" and fixes the row order independently of Nthread
    r, q, n = z3.Ints('r q n')
    onto = lambda nn: z3.ForAll([c, r], z3.Implies(z3.And(0 <= r, r < RKF(c, nn)), z3.Exists([q], z3.And(0 <= q, q < nn, CODEF(q) == c, RKF(c, q) == r))))      # noqa: E731
    run.lemma('lemma.RK_onto.base', rec, onto(z3.IntVal(0)))
    r0, c0 = z3.Ints('r0 c0')
    ih = onto(n)
    goal = z3.Exists([q], z3.And(0 <= q, q < n + 1, CODEF(q) == c0, RKF(c0, q) == r0))
    run.lemma('lemma.RK_onto.step', rec + [n >= 0, ih, 0 <= r0, r0 < RKF(c0, n + 1),
                                           z3.Implies(r0 < RKF(c0, n), z3.Exists([q], z3.And(0 <= q, q < n, CODEF(q) == c0, RKF(c0, q) == r0)))], goal)
    # telescoping of the per-thread counts (block contract link): g(t+1) = g(t) + RK(hs(t+1)) - RK(hs(t)), g(0) = 0, hs(0) = 0  =>  g(t) = RK(hs(t))
    gf = z3.Function('gst', z3.IntSort(), z3.IntSort())
    hs = z3.Function('hs', z3.IntSort(), z3.IntSort())
    t = z3.Int('t')
    hyp = rec + [gf(0) == 0, hs(0) == 0, z3.ForAll([t], z3.Implies(t >= 0, gf(t + 1) == gf(t) + RKF(c, hs(t + 1)) - RKF(c, hs(t))), patterns=[gf(t + 1)])]
    run.lemma('lemma.gstart_telescopes.base', hyp, gf(0) == RKF(c, hs(0)))
    run.lemma('lemma.gstart_telescopes.step', hyp + [b >= 0, gf(b) == RKF(c, hs(b))], gf(b + 1) == RKF(c, hs(b + 1)))


BLOCK = ['gstart = np.empty((Nthread + 1, 3), dtype=np.int64)', 'gstart[0, :] = 0', 'gstart[1:, 0] = Nout[:, 0, 0].cumsum()',
         'gstart[1:, 1] = Nout[:, 1, 0].cumsum()', 'gstart[1:, 2] = Nout[:, 2, 0].cumsum()']
NOUT_DONE = ('forall((tt, cc), 0 <= tt and tt < {upto} and 0 <= cc and cc < 3, '
             'Nout[tt, cc, 0] == RK(cc + 1, hstart[tt + 1]) - RK(cc + 1, hstart[tt]))')


def block_apply(eng, st):
    """assumed contract of `gstart[1:, c] = Nout[:, c, 0].cumsum()` (running sums over threads, first row 0); with the count-pass
    postcondition and lemma gstart_telescopes this is gstart[t, c] = RK(c+1, hstart[t])"""
    eng.oblige(st, 'block_pre', eng.spec_bool(NOUT_DONE.format(upto='Nthread'), st), None, label='count-pass postcondition before the prefix sums')
    T = I(st.env['Nthread'])
    gsa = eng.new_array(st, 'gstart', [T + 1, z3.IntVal(3)], 'int', DT('int', 'int64', 64, True))
    st.env['gstart'] = gsa
    st.pc.append(eng.spec_bool('forall((tt, cc), 0 <= tt and tt <= Nthread and 0 <= cc and cc < 3, gstart[tt, cc] == RK(cc + 1, hstart[tt]))', st))


TR = [(1, 'lrg', 'L'), (2, 'elg', 'E'), (3, 'qso', 'Q')]


def row_clauses(upto, want, rsd):
    """every host q < upto with CODE(q) = c occupies row RK(c, q) of tracer c's arrays with the documented values"""
    cl = []
    for c, nm, p in TR:
        if not want[c - 1]:
            continue
        ac = f'alpha_c_{p}'
        vz = f'(vel[q, 2] + {ac} * vdev[q, 2])'
        zexpr = 'pos[q, 2]'
        if rsd:
            x = f'(pos[q, 2] + {vz} * inv_velz2kms)'
            zexpr = f'ite({x} >= lbox / 2, {x} - lbox, ite({x} < -(lbox / 2), {x} + lbox, {x}))'
        vals = dict(x='pos[q, 0]', y='pos[q, 1]', z=zexpr, vx=f'vel[q, 0] + {ac} * vdev[q, 0]', vy=f'vel[q, 1] + {ac} * vdev[q, 1]', vz=vz[1:-1],
                    mass='mass[q]', id='ids[q]')
        for col, v in vals.items():
            cl.append(f'forall(q, 0, {upto}, implies(CODE(q) == {c}, {nm}_{col}[RK({c}, q)] == {v}))')
    return cl


def spec_gen_cent(want, rsd, repo=None):
    repo = repo or os.environ.get('VV_REPO', '/repo')
    op = tie_op(repo)
    dicts = (hod_dict('L'), hod_dict('E'), hod_dict('Q'))
    H = 'len(mass)'
    req = ['Nthread >= 1', 'lbox > 0'] + [f'len({a}) == {H}' for a in ('pos', 'vel', 'ids', 'multis', 'randoms', 'vdev', 'deltac', 'fenv', 'shear')] + \
          [f'forall(q, 0, {H}, randoms[q] > 0)']         # a random of exactly 0 with a disabled tracer is the zero-width-slice corner (noted, not constrained)
    ts = ['0 <= tid and tid <= Nthread', f'forall(u, 0, Nthread, 0 <= hstart[u] and hstart[u] <= hstart[u + 1] and hstart[u + 1] <= {H})',
          f'hstart[0] == 0 and hstart[Nthread] == {H}']
    keepq = 'forall(q, 0, {upto}, keep[q] == CODE(q))'
    nout_zero = 'forall((tt, cc), {lo} <= tt and tt < Nthread and 0 <= cc and cc < 3, Nout[tt, cc, 0] == 0)'
    cur = ['Nout[tid, 0, 0] == RK(1, i) - RK(1, hstart[tid])', 'Nout[tid, 1, 0] == RK(2, i) - RK(2, hstart[tid])',
           'Nout[tid, 2, 0] == RK(3, i) - RK(3, hstart[tid])']
    aliases = []
    for c, nm, p in TR:
        if want[c - 1]:
            aliases.append(f'alpha_c_{p} == {"LEQ"[c - 1]}_alpha_c' if False else None)
    lens = [f'len({nm}_{col}) == RK({c}, {H})' for c, nm, p in TR for col in ('x', 'y', 'z', 'vx', 'vy', 'vz', 'mass', 'id')]
    j_inv = ['j1 == RK(1, i)', 'j2 == RK(2, i)', 'j3 == RK(3, i)']
    fill_hints = ['keep[i] == CODE(i)', 'unfold CODE(i)', 'unfold RK(1, i)', 'unfold RK(2, i)', 'unfold RK(3, i)',
                  f'RK(1, i + 1) <= RK(1, {H}) and RK(2, i + 1) <= RK(2, {H}) and RK(3, i + 1) <= RK(3, {H})']
    wr2 = {}
    for c, nm, p in TR:
        if not want[c - 1]:
            continue            # arrays of a disabled tracer are never written (a store to them would lack a footprint -> obligation fails)
        for col in ('x', 'y', 'z', 'vx', 'vy', 'vz', 'mass', 'id'):
            wr2[f'{nm}_{col}'] = ('r', f'exists(q, hstart[tid], hstart[tid + 1], CODE(q) == {c} and RK({c}, q) == r)')
    loops = {
        0: LoopSpec(invariant=ts + [keepq.format(upto='hstart[tid]'), NOUT_DONE.format(upto='tid'), nout_zero.format(lo='tid')],
                    writes=dict(keep=('q', 'hstart[tid] <= q and q < hstart[tid + 1]'), Nout=('a,b,c', 'a == tid'))),
        1: LoopSpec(invariant=ts + ['tid < Nthread', 'i >= 0', 'hstart[tid] <= i and i <= hstart[tid + 1]', keepq.format(upto='i'), NOUT_DONE.format(upto='tid'),
                                    nout_zero.format(lo='tid + 1')] + cur,
                    body_asserts={'if randoms[i] ': ['LRG_marker == MKL(i)', 'ELG_marker == MKE(i)', 'QSO_marker == MKQ(i)', 'randoms[i] > 0',
                                                     'unfold CODE(i)', 'unfold RK(1, i)', 'unfold RK(2, i)', 'unfold RK(3, i)']},
                    asserts=['keep[i - 1] == CODE(i - 1)']),
        2: LoopSpec(invariant=ts + row_clauses('hstart[tid]', want, rsd), writes=wr2),
        3: LoopSpec(invariant=ts + ['tid < Nthread', 'i >= 0', 'hstart[tid] <= i and i <= hstart[tid + 1]'] + j_inv + row_clauses('i', want, rsd),
                    body_asserts={'if keep[i] == 1': fill_hints}),
    }
    ens = [keepq.format(upto=H).replace('keep[q]', 'result[4][q]')]
    for c, nm, p in TR:
        d = 3 if False else c - 1
        for col in ('x', 'y', 'z', 'vx', 'vy', 'vz', 'mass'):
            ens.append(f'len(result[{d}]["{col}"]) == RK({c}, {H})')
        ens.append(f'len(result[3]["{("LRG", "ELG", "QSO")[c - 1]}"]) == RK({c}, {H})')
    for cl in row_clauses(H, want, rsd):
        # rewrite array names to the returned dictionaries
        for c, nm, p in TR:
            for col in ('x', 'y', 'z', 'vx', 'vy', 'vz', 'mass'):
                cl = cl.replace(f'{nm}_{col}[', f'result[{c - 1}]["{col}"][')
            cl = cl.replace(f'{nm}_id[', f'result[3]["{("LRG", "ELG", "QSO")[c - 1]}"][')
        ens.append(cl)
    ncl = CalleeSpec(['M_h', 'logM_cut', 'sigma'], ensures=['result == NCLF(M_h, logM_cut, sigma)'], result='real')
    nce = CalleeSpec(['M_h', 'p_max', 'Q', 'logM_cut', 'sigma', 'gamma', 'Anorm'], ensures=['result == NCEF(M_h, p_max, Q, logM_cut, sigma, gamma, Anorm)'],
                     result='real', defaults=dict(Anorm=1))
    ncq = CalleeSpec(['M_h', 'logM_cut', 'sigma'], ensures=['result == NCQF(M_h, logM_cut, sigma)'], result='real')
    gh = make_ghosts(want, op, dicts)

    def ghosts(g):
        gh(g)
        eng = g.eng
        tr = lambda v: eng.toreal(eng.tosv(v)).t       # noqa: E731
        g.fn('NCLF', lambda a, b, c: SV(NCL(tr(a), tr(b), tr(c)), 'real'))
        g.fn('NCEF', lambda *a: SV(NCE(*[tr(x) for x in a]), 'real'))
        g.fn('NCQF', lambda a, b, c: SV(NCQ(tr(a), tr(b), tr(c)), 'real'))
    name = 'gen_cent[' + '+'.join(n for n, w in zip(('LRG', 'ELG', 'QSO'), want) if w) + f',rsd={rsd}]'
    if op is None:
        req.append('1 == 0')        # comparison form not recognised: the contract cannot be instantiated (vacuity guard reports it)
    return FnSpec(HOD, 'gen_cent', prop='C09', name=name,
                  args=dict(pos='real[:,3]!ro', vel='real[:,3]!ro', mass='real[:]!ro', ids='int[:]!ro', multis='real[:]!ro', randoms='real[:]!ro',
                            vdev='real[:,3]!ro', deltac='real[:]!ro', fenv='real[:]!ro', shear='real[:]!ro', LRG_hod_dict=dicts[0], ELG_hod_dict=dicts[1],
                            QSO_hod_dict=dicts[2], rsd=rsd, inv_velz2kms='real', lbox='real', want_LRG=want[0], want_ELG=want[1], want_QSO=want[2],
                            Nthread='int', origin=None),
                  ghosts=ghosts, requires=req, ensures=ens, frame=[], inline=['wrap'],
                  callees={'n_cen_LRG': ncl, 'N_cen_ELG_v1': nce, 'N_cen_QSO': ncq},
                  blocks=[dict(stmts=BLOCK, apply=block_apply, note='gstart = running sums over threads of the per-thread counts (cumsum), first row 0')],
                  loops=loops, hints={'N_lrg = ': [f'gstart[Nthread, 0] == RK(1, {H})', f'gstart[Nthread, 1] == RK(2, {H})', f'gstart[Nthread, 2] == RK(3, {H})']})


SUBSETS = [(True, True, True), (True, False, False), (False, True, False), (False, False, True), (True, True, False), (True, False, True), (False, True, True)]


def prove_gen_cent(run, prop, tier, lemmas=True):
    """gen_cent under contract for the tracer subsets x RSD (box observer; the light-cone `origin` branch stays bounded)"""
    if lemmas:
        prove_lemmas(run)
    if tier == 'quick':
        cfgs = [((True, True, True), True), ((True, True, True), False), ((False, True, False), True), ((True, False, True), False)]
    else:
        cfgs = [(w, r) for w in SUBSETS for r in (True, False)]
    for w, r in cfgs:
        sp = spec_gen_cent(w, r, run.repo)
        sp.prop = prop
        run.prove(sp)
