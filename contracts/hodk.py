"""Deductive contracts for the two-pass HOD kernel GRAND_HOD.gen_cent (used by C09, C10, C11).

Spec (from the C09 statement; no thread count in it).  Markers stacked LRG -> ELG -> QSO:
    MK_L(i) = [LRG] n_cen_LRG(mass_i, logM_cut_L + Ac_L*deltac_i + Bc_L*fenv_i, sigma_L) * ic_L * multis_i
    MK_E(i) = MK_L(i) + [ELG] N_cen_ELG_v1(mass_i, p_max, Q, logM_cut_E + Ac_E*deltac_i + Bc_E*fenv_i + Cc_E*shear_i, sigma_E, gamma_E) * ic_E * multis_i
    MK_Q(i) = MK_E(i) + [QSO] N_cen_QSO(mass_i, logM_cut_Q + Ac_Q*deltac_i + Bc_Q*fenv_i, sigma_Q) * ic_Q * multis_i
with the occupation functions as NAMED UNINTERPRETED functions (the property defines the widths as "the package's mean-occupation
functions").  CODE(i) = 1 / 2 / 3 / 0 by comparing the stored random with the markers; the tie rule (<= or <) is unconstrained
by the property and is therefore READ FROM THE SOURCE (the ghost step takes the code's choice as witness).
RK(c, i) = #{q < i : CODE(q) = c}.  Output of tracer c: row RK(c, q) of every column carries host q (id, mass, position,
v = v_h + alpha_c * dv, z' = wrap(z + v_z / velz2kms) with RSD), for every host with CODE(q) = c; keep[q] = CODE(q);
array lengths RK(c, H).  Count pass and fill pass agree by construction of the proof (gstart[t, c] = RK(c, hstart[t])).
"""
import ast
import os

import z3

from pyvc.engine import FnSpec, LoopSpec, CalleeSpec, SV, Arr, DT, I, fresh

HOD = 'abacusnbody/hod/GRAND_HOD.py'
R = z3.RealSort()
NCL = z3.Function('n_cen_LRG', R, R, R, R)
NCE = z3.Function('N_cen_ELG_v1', R, R, R, R, R, R, R, R)
NCQ = z3.Function('N_cen_QSO', R, R, R, R)
CODEF = z3.Function('CODE', z3.IntSort(), z3.IntSort())
RKF = z3.Function('RK', z3.IntSort(), z3.IntSort(), z3.IntSort())

KEYS = dict(L=['logM_cut', 'sigma', 'ic', 'alpha_c', 'Acent', 'Bcent'],
            E=['p_max', 'Q', 'logM_cut', 'sigma', 'gamma', 'alpha_c', 'Acent', 'Bcent', 'Ccent', 'ic'],
            Q=['logM_cut', 'sigma', 'alpha_c', 'Acent', 'Bcent', 'ic'])
SKEYS = dict(L=['logM_cut', 'logM1', 'sigma', 'alpha', 'kappa', 'alpha_s', 's', 's_v', 's_p', 's_r', 'Acent', 'Asat', 'Bcent', 'Bsat', 'ic'],
             E=['logM_cut', 'kappa', 'logM1', 'alpha', 'A_s', 'alpha_s', 's', 's_v', 's_p', 's_r', 'Acent', 'Asat', 'Bcent', 'Bsat', 'Ccent', 'Csat', 'ic',
                'logM1_EE', 'alpha_EE', 'logM1_EL', 'alpha_EL'],
             Q=['logM_cut', 'kappa', 'logM1', 'alpha', 'alpha_s', 's', 's_v', 's_p', 's_r', 'Acent', 'Asat', 'Bcent', 'Bsat', 'ic'])
NSL = z3.Function('n_sat_LRG_modified', R, R, R, R, R, R, R, R)
NSE = z3.Function('N_sat_elg', R, R, R, R, R, R, R)
NSG = z3.Function('N_sat_generic', R, R, R, R, R, R)


def tie_op(repo, fname='gen_cent'):
    """the comparison the code uses between the stored random and a marker (ties are unconstrained by the property)"""
    tree = ast.parse(open(os.path.join(repo, HOD)).read())
    fn = [n for n in tree.body if isinstance(n, ast.FunctionDef) and n.name == fname][0]
    ops = set()
    for n in ast.walk(fn):
        if isinstance(n, ast.Compare) and ast.unparse(n.left) == 'randoms[i]' and 'marker' in ast.unparse(n.comparators[0]):
            ops.add(type(n.ops[0]).__name__)
    if ops == {'LtE'}:
        return '<='
    if ops == {'Lt'}:
        return '<'
    return None


def hod_dict(p, keys=KEYS):
    return {k: SV(z3.Real(f'{p}_{k}'), 'real') for k in keys[p]}


def cent_markers(g, dicts):
    A = lambda nm: g.arr_term(nm)       # noqa: E731
    mass, dc, fe, sh, mu = A('mass'), A('deltac'), A('fenv'), A('shear'), A('multis')
    S = lambda a, i: z3.Select(a, i)       # noqa: E731
    M = g.eng.mul_terms                    # products exactly as the interpreter builds them (uninterpreted in opaque_mul contracts)
    L, E, Q = dicts
    wL = lambda i: M(M(NCL(S(mass, i), L['logM_cut'].t + M(L['Acent'].t, S(dc, i)) + M(L['Bcent'].t, S(fe, i)), L['sigma'].t), L['ic'].t), S(mu, i))      # noqa: E731
    wE = lambda i: M(M(NCE(S(mass, i), E['p_max'].t, E['Q'].t,      # noqa: E731
                           E['logM_cut'].t + M(E['Acent'].t, S(dc, i)) + M(E['Bcent'].t, S(fe, i)) + M(E['Ccent'].t, S(sh, i)),
                           E['sigma'].t, E['gamma'].t, z3.RealVal(1)), E['ic'].t), S(mu, i))
    wQ = lambda i: M(M(NCQ(S(mass, i), Q['logM_cut'].t + M(Q['Acent'].t, S(dc, i)) + M(Q['Bcent'].t, S(fe, i)), Q['sigma'].t), Q['ic'].t), S(mu, i))      # noqa: E731
    return wL, wE, wQ


def sat_markers(g, dicts, ranks_on):
    """slice widths of gen_sats: the satellite occupation function at the host mass with the assembly-bias shifted thresholds, times the
    particle weight and incompleteness, times the rank decorator when ranks are enabled; the ELG width switches to the conformity
    parameters (logM1_EL / alpha_EL with an LRG central, logM1_EE / alpha_EE with an ELG central) - without the shear term, as written"""
    from pyvc.engine import POW
    A = lambda nm: g.arr_term(nm)       # noqa: E731
    mass, dc, fe, sh, w, kc = A('hmass'), A('hdeltac'), A('hfenv'), A('hshear'), A('weights'), A('keep_cent')
    rk, rv, rp, rr = A('ranks'), A('ranksv'), A('ranksp'), A('ranksr')
    S = lambda a, i: z3.Select(a, i)       # noqa: E731
    L, E, Q = dicts
    P10 = lambda x: POW(z3.RealVal(10), x)       # noqa: E731
    M = g.eng.mul_terms                    # products exactly as the interpreter builds them (uninterpreted in opaque_mul contracts)

    def deco(D, i):
        return 1 + M(D['s'].t, S(rk, i)) + M(D['s_v'].t, S(rv, i)) + M(D['s_p'].t, S(rp, i)) + M(D['s_r'].t, S(rr, i))

    def wL(i):
        lc = L['logM_cut'].t + M(L['Acent'].t, S(dc, i)) + M(L['Bcent'].t, S(fe, i))
        m1 = P10(L['logM1'].t + M(L['Asat'].t, S(dc, i)) + M(L['Bsat'].t, S(fe, i)))
        base = M(M(NSL(S(mass, i), lc, P10(lc), m1, L['sigma'].t, L['alpha'].t, L['kappa'].t), S(w, i)), L['ic'].t)
        return M(base, deco(L, i)) if ranks_on else base

    def wE(i):
        lc = E['logM_cut'].t + M(E['Acent'].t, S(dc, i)) + M(E['Bcent'].t, S(fe, i)) + M(E['Ccent'].t, S(sh, i))
        ab = M(E['Asat'].t, S(dc, i)) + M(E['Bsat'].t, S(fe, i))
        f = lambda m1, al: M(M(NSE(S(mass, i), P10(lc), E['kappa'].t, P10(m1), al, E['A_s'].t), S(w, i)), E['ic'].t)      # noqa: E731
        base = z3.If(S(kc, i) == 1, f(E['logM1_EL'].t + ab, E['alpha_EL'].t),
                     z3.If(S(kc, i) == 2, f(E['logM1_EE'].t + ab, E['alpha_EE'].t), f(E['logM1'].t + ab + M(E['Csat'].t, S(sh, i)), E['alpha'].t)))
        return M(base, deco(E, i)) if ranks_on else base

    def wQ(i):
        lc = Q['logM_cut'].t + M(Q['Acent'].t, S(dc, i)) + M(Q['Bcent'].t, S(fe, i))
        m1 = P10(Q['logM1'].t + M(Q['Asat'].t, S(dc, i)) + M(Q['Bsat'].t, S(fe, i)))
        base = M(M(NSG(S(mass, i), P10(lc), Q['kappa'].t, m1, Q['alpha'].t), S(w, i)), Q['ic'].t)
        return M(base, deco(Q, i)) if ranks_on else base
    return wL, wE, wQ


def make_ghosts(want, op, widths):
    def ghosts(g):
        eng = g.eng
        rnd = g.arr_term('randoms')
        S = lambda a, i: z3.Select(a, i)       # noqa: E731
        wL, wE, wQ = widths(g)

        def mkL(i):
            return wL(i) if want[0] else z3.RealVal(0)

        def mkE(i):
            return mkL(i) + wE(i) if want[1] else mkL(i)

        def mkQ(i):
            return mkE(i) + wQ(i) if want[2] else mkE(i)
        cmp_ = (lambda a, b: a <= b) if op == '<=' else (lambda a, b: a < b)
        # the markers are opaque symbols with definitions; a disabled tracer re-uses the previous marker SYMBOL, so its slice is
        # propositionally empty (the fill pass never enters the branch of a disabled tracer)
        ML = g.define('MKL', ['int'], 'real', lambda i: SV(mkL(i.t), 'real'))
        ME = g.define('MKE', ['int'], 'real', lambda i: SV(mkE(i.t), 'real')) if want[1] else ML
        MQ = g.define('MKQ', ['int'], 'real', lambda i: SV(mkQ(i.t), 'real')) if want[2] else ME
        if not want[1]:
            g.fn('MKE', eng.ghost['MKL'])
        if not want[2]:
            g.fn('MKQ', eng.ghost['MKE'])

        # a disabled tracer has a zero-width slice (its marker equals the previous one, or the constant 0 < randoms for the first):
        # code c can only occur for an enabled tracer, so CODE is the nested comparison over the enabled ones
        def code(i):
            e = z3.IntVal(0)
            for cc, M in reversed([(1, ML), (2, ME), (3, MQ)]):
                if want[cc - 1]:
                    e = z3.If(cmp_(S(rnd, i), M(i)), cc, e)
            return e
        g.define('CODED', ['int'], 'int', lambda i: SV(z3.simplify(code(i.t)), 'int'))
        CD = eng.ghost['CODED']
        q, c, a, b = z3.Ints('hq hc ha hb')
        # CODE is the symbol the counting lemmas talk about; CODED its definition
        g.fn('CODE', lambda i: (CD(i), SV(CODEF(z3.simplify(eng.tosv(i).t)), 'int'))[1])
        g.axiom(z3.ForAll([q], z3.And(0 <= CODEF(q), CODEF(q) <= 3), patterns=[CODEF(q)]))
        g.fn('RK', lambda cc, i: SV(RKF(z3.simplify(eng.tosv(cc).t), z3.simplify(eng.tosv(i).t)), 'int'))
        g.axiom(z3.ForAll([c], RKF(c, 0) == 0, patterns=[RKF(c, 0)]))
        g.axiom(z3.ForAll([c, q], z3.Implies(q >= 0, RKF(c, q + 1) == RKF(c, q) + z3.If(CODEF(q) == c, 1, 0)), patterns=[RKF(c, q + 1)]))
        # lemmas proved by induction in prove_lemmas(): monotone, bounded
        g.axiom(z3.ForAll([c, a, b], z3.Implies(z3.And(0 <= a, a <= b), z3.And(0 <= RKF(c, a), RKF(c, a) <= RKF(c, b))),
                          patterns=[z3.MultiPattern(RKF(c, a), RKF(c, b))]))
        # lemma RK_strict (proved in prove_lemmas): hosts with the same code get increasing rows
        g.axiom(z3.ForAll([c, a, b], z3.Implies(z3.And(0 <= a, a < b, CODEF(a) == c), RKF(c, a) < RKF(c, b)),
                          patterns=[z3.MultiPattern(RKF(c, a), RKF(c, b))]))
        g.unfolder('RK', lambda cc, i: [z3.Implies(i.t >= 0, RKF(cc.t, i.t + 1) == RKF(cc.t, i.t) + z3.If(CODEF(i.t) == cc.t, 1, 0))])
        # the opaque definition links the two symbols on demand
        g.unfolder('CODE', lambda i: [CODEF(i.t) == eng.ghost['CODED'](i).t])
    return ghosts


def prove_lemmas(run):
    c, a, b, k = z3.Ints('c a b k')
    rec = [z3.ForAll([c], RKF(c, 0) == 0), z3.ForAll([c, k], z3.Implies(k >= 0, RKF(c, k + 1) == RKF(c, k) + z3.If(CODEF(k) == c, 1, 0)), patterns=[RKF(c, k + 1)])]
    P = lambda bb: z3.ForAll([c, a], z3.Implies(z3.And(0 <= a, a <= bb), z3.And(0 <= RKF(c, a), RKF(c, a) <= RKF(c, bb))))      # noqa: E731
    run.lemma('lemma.RK_mono.base', rec, P(z3.IntVal(0)))
    run.lemma('lemma.RK_mono.step', rec + [b >= 0, P(b)], P(b + 1))
    mono = z3.ForAll([c, a, b], z3.Implies(z3.And(0 <= a, a <= b), z3.And(0 <= RKF(c, a), RKF(c, a) <= RKF(c, b))), patterns=[z3.MultiPattern(RKF(c, a), RKF(c, b))])
    run.lemma('lemma.RK_strict', rec + [mono, 0 <= a, a < b, CODEF(a) == c, RKF(c, a + 1) <= RKF(c, b)], RKF(c, a) < RKF(c, b))
    # every row below RK(c, n) is the row of exactly one host (onto by induction on n; one-to-one is RK_strict): together with the
    # row postcondition this is "no output row is left unwritten or written twice" and fixes the row order independently of Nthread
    r, q, n = z3.Ints('r q n')
    onto = lambda nn: z3.ForAll([c, r], z3.Implies(z3.And(0 <= r, r < RKF(c, nn)), z3.Exists([q], z3.And(0 <= q, q < nn, CODEF(q) == c, RKF(c, q) == r))))      # noqa: E731
    run.lemma('lemma.RK_onto.base', rec, onto(z3.IntVal(0)))
    r0, c0 = z3.Ints('r0 c0')
    ih = onto(n)
    goal = z3.Exists([q], z3.And(0 <= q, q < n + 1, CODEF(q) == c0, RKF(c0, q) == r0))
    run.lemma('lemma.RK_onto.step', rec + [n >= 0, ih, 0 <= r0, r0 < RKF(c0, n + 1),
                                           z3.Implies(r0 < RKF(c0, n), z3.Exists([q], z3.And(0 <= q, q < n, CODEF(q) == c0, RKF(c0, q) == r0)))], goal)
    # telescoping of the per-thread counts (block contract link): g(t+1) = g(t) + RK(hs(t+1)) - RK(hs(t)), g(0) = 0, hs(0) = 0  =>  g(t) = RK(hs(t))
    gf = z3.Function('gst', z3.IntSort(), z3.IntSort())
    hs = z3.Function('hs', z3.IntSort(), z3.IntSort())
    t = z3.Int('t')
    hyp = rec + [gf(0) == 0, hs(0) == 0, z3.ForAll([t], z3.Implies(t >= 0, gf(t + 1) == gf(t) + RKF(c, hs(t + 1)) - RKF(c, hs(t))), patterns=[gf(t + 1)])]
    run.lemma('lemma.gstart_telescopes.base', hyp, gf(0) == RKF(c, hs(0)))
    run.lemma('lemma.gstart_telescopes.step', hyp + [b >= 0, gf(b) == RKF(c, hs(b))], gf(b + 1) == RKF(c, hs(b + 1)))


BLOCK = ['gstart = np.empty((Nthread + 1, 3), dtype=np.int64)', 'gstart[0, :] = 0', 'gstart[1:, 0] = Nout[:, 0, 0].cumsum()',
         'gstart[1:, 1] = Nout[:, 1, 0].cumsum()', 'gstart[1:, 2] = Nout[:, 2, 0].cumsum()']
NOUT_DONE = ('forall((tt, cc), 0 <= tt and tt < {upto} and 0 <= cc and cc < 3, '
             'Nout[tt, cc, 0] == RK(cc + 1, hstart[tt + 1]) - RK(cc + 1, hstart[tt]))')


def block_apply(eng, st):
    """assumed contract of `gstart[1:, c] = Nout[:, c, 0].cumsum()` (running sums over threads, first row 0); with the count-pass
    postcondition and lemma gstart_telescopes this is gstart[t, c] = RK(c+1, hstart[t])"""
    eng.oblige(st, 'block_pre', eng.spec_bool(NOUT_DONE.format(upto='Nthread'), st), None, label='count-pass postcondition before the prefix sums')
    T = I(st.env['Nthread'])
    gsa = eng.new_array(st, 'gstart', [T + 1, z3.IntVal(3)], 'int', DT('int', 'int64', 64, True))
    st.env['gstart'] = gsa
    st.pc.append(eng.spec_bool('forall((tt, cc), 0 <= tt and tt <= Nthread and 0 <= cc and cc < 3, gstart[tt, cc] == RK(cc + 1, hstart[tt]))', st))


TR = [(1, 'lrg', 'L'), (2, 'elg', 'E'), (3, 'qso', 'Q')]


NAMES = dict(cent=dict(fn='gen_cent', pos='pos', H='len(mass)', mass='mass', id='ids', al='alpha_c',
                       vel=lambda ac, k: f'vel[q, {k}] + {ac} * vdev[q, {k}]'),
             sats=dict(fn='gen_sats', pos='ppos', H='len(hmass)', mass='hmass', id='hid', al='alpha_s',
                       vel=lambda ac, k: f'hvel[q, {k}] + {ac} * (pvel[q, {k}] - hvel[q, {k}])'))


def row_clauses(upto, want, rsd, kind='cent', lc=False):
    """every host q < upto with CODE(q) = c occupies row RK(c, q) of tracer c's arrays with the documented values.
    lc: light-cone observer at `origin`: with RSD the position moves along the unit line of sight n = (pos - origin)/|pos - origin|
    by (v . n) * inv_velz2kms (no wrap); box observer: only z moves, by v_z * inv_velz2kms, wrapped into [-L/2, L/2)"""
    N = NAMES[kind]
    cl = []
    for c, nm, p in TR:
        if not want[c - 1]:
            continue
        ac = f'{N["al"]}_{p}'
        vz = f'({N["vel"](ac, 2)})'
        pos = N['pos']
        xe, ye, zexpr = f'{pos}[q, 0]', f'{pos}[q, 1]', f'{pos}[q, 2]'
        if rsd and lc:
            d = [f'({pos}[q, {k}] - origin[{k}])' for k in range(3)]
            inv = f'(1.0 / sqrt({d[0]} * {d[0]} + {d[1]} * {d[1]} + {d[2]} * {d[2]}))'
            n = [f'({d[k]} * {inv})' for k in range(3)]
            v = [f'({N["vel"](ac, k)})' for k in range(3)]
            proj = f'(inv_velz2kms * ({v[0]} * {n[0]} + {v[1]} * {n[1]} + {v[2]} * {n[2]}))'
            xe, ye, zexpr = [f'{pos}[q, {k}] + {proj} * {n[k]}' for k in range(3)]
        elif rsd:
            x = f'({pos}[q, 2] + {vz} * inv_velz2kms)'
            zexpr = f'ite({x} >= lbox / 2, {x} - lbox, ite({x} < -(lbox / 2), {x} + lbox, {x}))'
        vals = dict(x=xe, y=ye, z=zexpr, vx=N['vel'](ac, 0), vy=N['vel'](ac, 1), vz=vz[1:-1],
                    mass=f'{N["mass"]}[q]', id=f'{N["id"]}[q]')
        for col, v in vals.items():
            cl.append(f'forall(q, 0, {upto}, implies(CODE(q) == {c}, {nm}_{col}[RK({c}, q)] == {v}))')
    return cl


def spec_gen_cent(want, rsd, repo=None, lc=False):
    return spec_kernel('cent', want, rsd, repo=repo, lc=lc)


def spec_gen_sats(want, rsd, ranks_on, repo=None, lc=False):
    return spec_kernel('sats', want, rsd, ranks_on, repo=repo, lc=lc)


def spec_kernel(kind, want, rsd, ranks_on=False, repo=None, lc=False):
    repo = repo or os.environ.get('VV_REPO', '/repo')
    N = NAMES[kind]
    op = tie_op(repo, N['fn'])
    keys = KEYS if kind == 'cent' else SKEYS
    dicts = (hod_dict('L', keys), hod_dict('E', keys), hod_dict('Q', keys))
    H = N['H']
    if kind == 'cent':
        others = ('pos', 'vel', 'ids', 'multis', 'randoms', 'vdev', 'deltac', 'fenv', 'shear')
    else:
        others = ('ppos', 'pvel', 'hvel', 'hid', 'weights', 'randoms', 'hdeltac', 'hfenv', 'hshear', 'ranks', 'ranksv', 'ranksp', 'ranksr', 'ranksc', 'keep_cent')
    req = ['Nthread >= 1', 'lbox > 0'] + [f'len({a}) == {H}' for a in others] + \
          [f'forall(q, 0, {H}, randoms[q] > 0)']         # a random of exactly 0 with a disabled tracer is the zero-width-slice corner (noted, not constrained)
    if lc:
        # the observer does not sit exactly on a host / particle (the line of sight would be undefined: division by zero in the code)
        P = N['pos']
        req.append(f'forall(q, 0, {H}, ({P}[q, 0] - origin[0]) * ({P}[q, 0] - origin[0]) + ({P}[q, 1] - origin[1]) * ({P}[q, 1] - origin[1]) + '
                   f'({P}[q, 2] - origin[2]) * ({P}[q, 2] - origin[2]) > 0)')
    ts = ['0 <= tid and tid <= Nthread', f'forall(u, 0, Nthread, 0 <= hstart[u] and hstart[u] <= hstart[u + 1] and hstart[u + 1] <= {H})',
          f'hstart[0] == 0 and hstart[Nthread] == {H}']
    keepq = 'forall(q, 0, {upto}, keep[q] == CODE(q))'
    nout_zero = 'forall((tt, cc), {lo} <= tt and tt < Nthread and 0 <= cc and cc < 3, Nout[tt, cc, 0] == 0)'
    cur = ['Nout[tid, 0, 0] == RK(1, i) - RK(1, hstart[tid])', 'Nout[tid, 1, 0] == RK(2, i) - RK(2, hstart[tid])',
           'Nout[tid, 2, 0] == RK(3, i) - RK(3, hstart[tid])']
    j_inv = ['j1 == RK(1, i)', 'j2 == RK(2, i)', 'j3 == RK(3, i)']
    fill_hints = ['keep[i] == CODE(i)', 'unfold CODE(i)', 'unfold RK(1, i)', 'unfold RK(2, i)', 'unfold RK(3, i)',
                  f'RK(1, i + 1) <= RK(1, {H}) and RK(2, i + 1) <= RK(2, {H}) and RK(3, i + 1) <= RK(3, {H})']
    wr2 = {}
    for c, nm, p in TR:
        if not want[c - 1]:
            continue            # arrays of a disabled tracer are never written (a store to them would lack a footprint -> obligation fails)
        for col in ('x', 'y', 'z', 'vx', 'vy', 'vz', 'mass', 'id'):
            wr2[f'{nm}_{col}'] = ('r', f'exists(q, hstart[tid], hstart[tid + 1], CODE(q) == {c} and RK({c}, q) == r)')
    loops = {
        0: LoopSpec(invariant=ts + [keepq.format(upto='hstart[tid]'), NOUT_DONE.format(upto='tid'), nout_zero.format(lo='tid')],
                    writes=dict(keep=('q', 'hstart[tid] <= q and q < hstart[tid + 1]'), Nout=('a,b,c', 'a == tid'))),
        1: LoopSpec(invariant=ts + ['tid < Nthread', 'i >= 0', 'hstart[tid] <= i and i <= hstart[tid + 1]', keepq.format(upto='i'), NOUT_DONE.format(upto='tid'),
                                    nout_zero.format(lo='tid + 1')] + cur,
                    body_asserts={'if randoms[i] ': ['LRG_marker == MKL(i)', 'ELG_marker == MKE(i)', 'QSO_marker == MKQ(i)', 'randoms[i] > 0',
                                                     'unfold CODE(i)', 'unfold RK(1, i)', 'unfold RK(2, i)', 'unfold RK(3, i)']},
                    asserts=['keep[i - 1] == CODE(i - 1)']),
        2: LoopSpec(invariant=ts + row_clauses('hstart[tid]', want, rsd, kind, lc), writes=wr2),
        3: LoopSpec(invariant=ts + ['tid < Nthread', 'i >= 0', 'hstart[tid] <= i and i <= hstart[tid + 1]'] + j_inv + row_clauses('i', want, rsd, kind, lc),
                    body_asserts={'if keep[i] == 1': fill_hints}),
    }
    ens = [keepq.format(upto=H).replace('keep[q]', 'result[4][q]')] if kind == 'cent' else []
    for c, nm, p in TR:
        for col in ('x', 'y', 'z', 'vx', 'vy', 'vz', 'mass'):
            ens.append(f'len(result[{c - 1}]["{col}"]) == RK({c}, {H})')
        ens.append(f'len(result[3]["{("LRG", "ELG", "QSO")[c - 1]}"]) == RK({c}, {H})')
    for cl in row_clauses(H, want, rsd, kind, lc):
        # rewrite array names to the returned dictionaries
        for c, nm, p in TR:
            for col in ('x', 'y', 'z', 'vx', 'vy', 'vz', 'mass'):
                cl = cl.replace(f'{nm}_{col}[', f'result[{c - 1}]["{col}"][')
            cl = cl.replace(f'{nm}_id[', f'result[3]["{("LRG", "ELG", "QSO")[c - 1]}"][')
        ens.append(cl)
    if kind == 'cent':
        callees = {'n_cen_LRG': CalleeSpec(['M_h', 'logM_cut', 'sigma'], ensures=['result == NCLF(M_h, logM_cut, sigma)'], result='real'),
                   'N_cen_ELG_v1': CalleeSpec(['M_h', 'p_max', 'Q', 'logM_cut', 'sigma', 'gamma', 'Anorm'],
                                              ensures=['result == NCEF(M_h, p_max, Q, logM_cut, sigma, gamma, Anorm)'], result='real', defaults=dict(Anorm=1)),
                   'N_cen_QSO': CalleeSpec(['M_h', 'logM_cut', 'sigma'], ensures=['result == NCQF(M_h, logM_cut, sigma)'], result='real')}
        gh = make_ghosts(want, op, lambda g: cent_markers(g, dicts))
        fns = dict(NCLF=NCL, NCEF=NCE, NCQF=NCQ)
    else:
        callees = {'n_sat_LRG_modified': CalleeSpec(['M_h', 'logM_cut', 'M_cut', 'M_1', 'sigma', 'alpha', 'kappa'],
                                                    ensures=['result == NSLF(M_h, logM_cut, M_cut, M_1, sigma, alpha, kappa)'], result='real'),
                   'N_sat_elg': CalleeSpec(['M_h', 'M_cut', 'kappa', 'M_1', 'alpha', 'A_s'], ensures=['result == NSEF(M_h, M_cut, kappa, M_1, alpha, A_s)'],
                                           result='real', defaults=dict(A_s=1.0)),
                   'N_sat_generic': CalleeSpec(['M_h', 'M_cut', 'kappa', 'M_1', 'alpha'], ensures=['result == NSGF(M_h, M_cut, kappa, M_1, alpha)'], result='real')}
        gh = make_ghosts(want, op, lambda g: sat_markers(g, dicts, ranks_on))
        fns = dict(NSLF=NSL, NSEF=NSE, NSGF=NSG)

    def ghosts(g):
        gh(g)
        eng = g.eng
        tr = lambda v: eng.toreal(eng.tosv(v)).t       # noqa: E731
        for nm, F in fns.items():
            g.fn(nm, (lambda F: lambda *a: SV(F(*[tr(x) for x in a]), 'real'))(F))
    name = N['fn'] + '[' + '+'.join(n for n, w in zip(('LRG', 'ELG', 'QSO'), want) if w) + f',rsd={rsd}' + (f',ranks={ranks_on}' if kind == 'sats' else '') + \
        (',lightcone' if lc else '') + ']'
    if op is None:
        req.append('1 == 0')        # comparison form not recognised: the contract cannot be instantiated (vacuity guard reports it)
    common = dict(LRG_hod_dict=dicts[0], ELG_hod_dict=dicts[1], QSO_hod_dict=dicts[2], rsd=rsd, inv_velz2kms='real', lbox='real',
                  want_LRG=want[0], want_ELG=want[1], want_QSO=want[2], Nthread='int', origin='real[3]!ro' if lc else None)
    if kind == 'cent':
        args = dict(pos='real[:,3]!ro', vel='real[:,3]!ro', mass='real[:]!ro', ids='int[:]!ro', multis='real[:]!ro', randoms='real[:]!ro',
                    vdev='real[:,3]!ro', deltac='real[:]!ro', fenv='real[:]!ro', shear='real[:]!ro', **common)
    else:
        args = dict(ppos='real[:,3]!ro', pvel='real[:,3]!ro', hvel='real[:,3]!ro', hmass='real[:]!ro', hid='int[:]!ro', weights='real[:]!ro',
                    randoms='real[:]!ro', hdeltac='real[:]!ro', hfenv='real[:]!ro', hshear='real[:]!ro', enable_ranks=ranks_on, ranks='real[:]!ro',
                    ranksv='real[:]!ro', ranksp='real[:]!ro', ranksr='real[:]!ro', ranksc='real[:]!ro', Mpart='real', keep_cent='int[:]!ro', **common)
        order = ['ppos', 'pvel', 'hvel', 'hmass', 'hid', 'weights', 'randoms', 'hdeltac', 'hfenv', 'hshear', 'enable_ranks', 'ranks', 'ranksv', 'ranksp', 'ranksr',
                 'ranksc', 'LRG_hod_dict', 'ELG_hod_dict', 'QSO_hod_dict', 'rsd', 'inv_velz2kms', 'lbox', 'Mpart', 'want_LRG', 'want_ELG', 'want_QSO', 'Nthread',
                 'origin', 'keep_cent']
        args = {k: args[k] for k in order}
    return FnSpec(HOD, N['fn'], prop='C09', name=name, args=args, opaque_mul=lc, auto_skolem=True,
                  ghosts=ghosts, requires=req, ensures=ens, frame=[], inline=['wrap'], callees=callees,
                  blocks=[dict(stmts=BLOCK, apply=block_apply, note='gstart = running sums over threads of the per-thread counts (cumsum), first row 0')],
                  loops=loops, hints={'N_lrg = ': [f'gstart[Nthread, 0] == RK(1, {H})', f'gstart[Nthread, 1] == RK(2, {H})', f'gstart[Nthread, 2] == RK(3, {H})']})


SUBSETS = [(True, True, True), (True, False, False), (False, True, False), (False, False, True), (True, True, False), (True, False, True), (False, True, True)]


def prove_kernels(run, prop, tier, lemmas=True):
    """gen_cent and gen_sats under contract for tracer subsets x RSD (x ranks), box observer and light-cone observer"""
    if lemmas:
        prove_lemmas(run)
    T3 = (True, True, True)
    if tier == 'quick':
        cent = {'C09': [(T3, True, False), (T3, False, False), ((False, True, False), True, False), (T3, True, True)],
                'C10': [(T3, False, False), ((True, False, True), True, False)], 'C11': [(T3, True, False), (T3, True, True)]}[prop]
        sats = {'C09': [(T3, True, True, False), ((False, True, False), False, False, False), (T3, True, True, True)],
                'C10': [(T3, False, False, False)], 'C11': [(T3, True, True, False), (T3, True, True, True)]}[prop]
    else:
        singles = [(True, False, False), (False, True, False), (False, False, True)]
        cent = [(w, True, False) for w in SUBSETS] + [(T3, False, False)] + [(w, True, True) for w in [T3] + singles]
        sats = [(w, True, True, False) for w in SUBSETS] + [(T3, False, False, False), (T3, True, False, False)] + [(w, True, True, True) for w in [T3] + singles]
        if prop == 'C11':
            cent = [(T3, True, False), (T3, False, False), (T3, True, True)]
            sats = [(T3, True, True, False), (T3, False, False, False), (T3, True, True, True)]
    for w, r, lc in cent:
        sp = spec_gen_cent(w, r, run.repo, lc=lc)
        sp.prop = prop
        run.prove(sp)
    for w, r, k, lc in sats:
        sp = spec_gen_sats(w, r, k, run.repo, lc=lc)
        sp.prop = prop
        run.prove(sp)
