"""C03 - superslab concatenation and filter_func commute with loading.

Status: BOUNDED stand-in (E3) for the astropy/numpy compaction code, plus one exhaustively decided piece:
* _setup_file_paths executed natively on every small path list (<= 3 files): duplicates, mixed catalogues and directories
  inside a list are rejected; superslab numbers are extracted in argument order;
* supporting arithmetic proved elsewhere: halo_file_offsets = util.cumsum(N_halo_per_file, initial, final) (C19 contract, every
  number of files incl. an empty table);
* run-time contract on synthetic catalogues: load(dir) == row-wise concatenation of load(file_i) for every non-empty file
  subset in every order; load(filter=m) == the rows (and contiguously re-indexed particle slices) that masking the unfiltered
  load gives, for EVERY mask of each superslab up to 4 halos (keep-nothing / keep-everything / whole-slab-empty included);
  cleaned catalogues (outside passthrough) present the cleaned particle count to the filter under the name N.
"""
import itertools
import shutil
import tempfile
import warnings

import numpy as np

from rtc import synth
from contracts.C01 import load, load_AB_of


def rows_equal(a, b, cols):
    for c in cols:
        x, y = np.asarray(a[c]), np.asarray(b[c])
        if x.shape != y.shape or not np.array_equal(x, y):
            return c
    return None


def judge_concat(T, sel, opts):
    files = synth.halo_files(T, sel)
    try:
        whole = load(T, path=files if len(files) > 1 else files[0], **dict(opts, subsamples=dict(opts['subsamples'])))
        parts = [load(T, path=f, **dict(opts, subsamples=dict(opts['subsamples']))) for f in files]
    except Exception as ex:      # noqa
        return f'files {sel}: loader raised {ex!r}'
    n = sum(len(p.halos) for p in parts)
    if len(whole.halos) != n:
        return f'files {sel}: {len(whole.halos)} rows, per-file loads give {n}'
    cols = [c for c in whole.halos.colnames if not c.startswith('npstart')]
    off = 0
    for k, p in enumerate(parts):
        bad = rows_equal(whole.halos[off:off + len(p.halos)], p.halos, cols)
        if bad:
            return f'files {sel}: column {bad} of the rows of file {sel[k]} differs from loading that file alone'
        off += len(p.halos)
    why = synth.check_slices(whole, T, opts['cleaned'], load_AB_of(opts['subsamples']), slabs=sel)
    return f'files {sel}: {why}' if why else None


def judge_filter(T, masks, opts, seen_N):
    flat = np.concatenate([np.asarray(m, dtype=bool) for m in masks]) if masks else np.zeros(0, bool)
    state = dict(k=0)

    def filt(h):
        m = np.asarray(masks[state['k']], dtype=bool)
        if 'N' in h.colnames:
            seen_N.append((state['k'], np.asarray(h['N']).copy()))
        else:
            seen_N.append((state['k'], None))
        state['k'] += 1
        return m
    try:
        base = load(T, **dict(opts, subsamples=dict(opts['subsamples'])))
        filt_cat = load(T, filter_func=filt, **dict(opts, subsamples=dict(opts['subsamples'])))
    except Exception as ex:      # noqa
        return f'masks {[list(map(int, m)) for m in masks]}: loader raised {ex!r}'
    if len(filt_cat.halos) != int(flat.sum()):
        return f'masks {[list(map(int, m)) for m in masks]}: {len(filt_cat.halos)} rows kept, mask keeps {int(flat.sum())}'
    cols = [c for c in base.halos.colnames if not c.startswith('npstart') and c in filt_cat.halos.colnames]
    bad = rows_equal(base.halos[flat], filt_cat.halos, cols)
    if bad:
        return f'masks {[list(map(int, m)) for m in masks]}: column {bad} differs from masking the unfiltered load'
    why = synth.check_slices(filt_cat, T, opts['cleaned'], load_AB_of(opts['subsamples']), masks=masks)
    if why:
        return f'masks {[list(map(int, m)) for m in masks]}: {why}'
    if opts['cleaned'] and not opts.get('passthrough'):
        for k, N in seen_N[-len(masks):]:
            want = T.slabs[k]['clean']['N_total']
            if N is None or not np.array_equal(N, want):
                return f'the filter function did not see the cleaned particle count as column N for superslab {k}'
    return None


def file_paths_exhaustive(run):
    """_setup_file_paths on every list of <= 3 entries over a small alphabet of paths"""
    from abacusnbody.data import compaso_halo_catalog as chc
    from pathlib import Path
    n = 0
    root = tempfile.mkdtemp(prefix='c03p_')
    try:
        T1 = synth.make_catalog(root + '/one', (1, 1, 1), seed=1)
        T2 = synth.make_catalog(root + '/two', (1, 1), seed=2)
        f1, f2 = synth.halo_files(T1), synth.halo_files(T2)
        alphabet = f1 + f2[:1] + [str(T1.groupdir)]
        for r in (1, 2, 3):
            for combo in itertools.product(range(len(alphabet)), repeat=r):
                paths = [alphabet[i] for i in combo]
                expect_error = (len(set(combo)) < len(combo)) or (len(f1) in combo and any(i < len(f1) for i in combo)) \
                    or (len(alphabet) - 1 in combo and r > 1)
                obj = chc.CompaSOHaloCatalog.__new__(chc.CompaSOHaloCatalog)
                n += 1
                try:
                    with warnings.catch_warnings():
                        warnings.simplefilter('ignore')
                        res = obj._setup_file_paths(paths if r > 1 else paths[0], cleaned=False, cleandir=None, halo_lc=False)
                    raised = None
                except (ValueError, FileNotFoundError) as ex:
                    raised = ex
                except Exception as ex:      # noqa
                    run.bounded_violation('_setup_file_paths', dict(paths=combo), f'paths {combo}: unexpected {ex!r}')
                    return n
                if expect_error and raised is None:
                    run.bounded_violation('_setup_file_paths accepts an invalid list', dict(paths=[p[-20:] for p in paths]),
                                          f'path list {[p[-24:] for p in paths]} (duplicate / mixed catalogue / directory in list) was accepted')
                    return n
                if not expect_error and raised is not None:
                    run.bounded_violation('_setup_file_paths rejects a valid list', dict(paths=[p[-20:] for p in paths]), f'{[p[-24:] for p in paths]}: {raised!r}')
                    return n
                if raised is None and len(alphabet) - 1 not in combo:
                    inds = [int(x) for x in obj.superslab_inds] if hasattr(obj, 'superslab_inds') else None
                    want = [int(Path(p).stem.split('_')[-1]) for p in paths]
                    if inds is not None and inds != want:
                        run.bounded_violation('_setup_file_paths superslab indices', dict(paths=[p[-20:] for p in paths]),
                                              f'superslab indices {inds} for files {[p[-24:] for p in paths]}, expected {want} (argument order)')
                        return n
    finally:
        shutil.rmtree(root, ignore_errors=True)
    return n


OPTSETS = [dict(cleaned=True, subsamples=dict(A=True, B=True, rvint=True, packedpid=True), passthrough=True, fields='all'),
           dict(cleaned=False, subsamples=dict(A=True, B=True, rvint=True, packedpid=True), passthrough=True, fields='all'),
           dict(cleaned=True, subsamples=dict(A=True, pid=True), fields=['N', 'x_L2com', 'r25_com']),
           dict(cleaned=False, subsamples=dict(B=True, pos=True), fields=['id', 'N'])]


def _cases(layout, seed, li, tier):
    """deterministic list of ('concat', sel, opts) / ('filter', masks, opts) cases for one layout"""
    n = len(layout)
    out = []
    for r in range(1, n + 1):
        for sub in itertools.combinations(range(n), r):
            orders = itertools.permutations(sub) if tier == 'thorough' or r <= 2 else [sub, tuple(reversed(sub))]
            for sel in orders:
                for opts in OPTSETS[:2]:
                    out.append(('concat', list(sel), opts))
    per_slab = [list(itertools.product([0, 1], repeat=k)) for k in layout]
    combos = list(itertools.product(*per_slab))
    if len(combos) > 80 and tier == 'quick':
        rnd = np.random.default_rng(seed + li)
        keep = set(rnd.choice(len(combos), 70, replace=False).tolist()) | {0, len(combos) - 1}
        for s_ in range(n):       # always: one whole superslab emptied
            m = tuple(tuple(0 if k == s_ else 1 for _ in range(layout[k])) for k in range(n))
            keep.add(combos.index(m))
        combos = [combos[i] for i in sorted(keep)]
    for masks in combos:
        for oi, opts in enumerate(OPTSETS):
            if oi >= 2 and sum(map(sum, masks)) % 3:
                continue
            out.append(('filter', [list(m) for m in masks], opts))
    return out


def _worker(task):
    li, layout, seed, tier, ch, nch = task
    root = tempfile.mkdtemp(prefix='c03_')
    nev, bad = 0, None
    try:
        # every second layout uses superslab numbers that are neither contiguous nor three-digit (halo_info_1000.asdf next to 000)
        numbers = None if li % 2 == 0 else ([0, 7, 1000, 1012][:len(layout)])      # increasing, so that the sorted directory listing is the file order
        T = synth.make_catalog(root, layout, seed=seed + 30 + li, max_np=2, slab_numbers=numbers)
        for k, (kind, arg, opts) in enumerate(_cases(layout, seed, li, tier)):
            if k % nch != ch:
                continue
            if kind == 'concat':
                why = judge_concat(T, arg, opts)
                w = dict(halos_per_superslab=list(layout), files=arg, cleaned=opts['cleaned'])
            else:
                why = judge_filter(T, arg, opts, [])
                w = dict(halos_per_superslab=list(layout), masks=arg, options={a: str(b) for a, b in opts.items()})
            nev += 1
            if why and not bad:
                bad = (w, why)
                break
    finally:
        shutil.rmtree(root, ignore_errors=True)
    return nev, bad


def check(run):
    run.level = 'exploration'
    try:
        npaths = file_paths_exhaustive(run)
        run.add_bounded('_setup_file_paths on every list of <= 3 paths over {3 files of one catalogue, 1 file of another, a directory}', npaths, npaths,
                        'complete enumeration of ordered lists of length 1..3 (duplicates, mixed catalogues, directory inside a list)', [dict(paths=['halo_info_001', 'halo_info_000'])],
                        exhaustive=True)
    except TypeError as ex:
        run.notes.append(f'_setup_file_paths signature changed: {ex!r}')
    layouts = [(3, 0, 2), (2, 2), (1,), (4, 1, 0)] if run.tier == 'quick' else [(3, 0, 2), (2, 2), (1,), (4, 1, 0), (2, 3, 1), (0, 3)]
    NCH = 6
    tasks = [(li, layout, run.seed, run.tier, ch, NCH) for li, layout in enumerate(layouts) for ch in range(NCH)]
    res = run.pmap(_worker, tasks)
    nev = sum(r[0] for r in res)
    ncat = len(layouts)
    bad = next((r[1] for r in res if r[1]), None)
    if bad:
        run.bounded_violation('concatenation / filter does not commute with loading', bad[0], bad[1])
    run.add_bounded('real CompaSOHaloCatalog: load(files) vs concatenated single-file loads; load(filter) vs masked unfiltered load', nev, ncat,
                    'layouts up to 3 superslabs x every non-empty file subset (both orders) x cleaned on/off; every per-superslab mask (all 2^k, sampled to 70 + keep-none/keep-all/one-slab-empty in quick) x 4 option sets; cleaned count visible as N',
                    [dict(halos_per_superslab=[3, 0, 2], masks=[[0, 0, 0], [], [1, 0]])])
    run.extra['explanation'] = 'bounded run-time contract check (E3) with an exhaustively decided path-list validator; cumsum arithmetic proved under C19'
    run.assumptions += ['ASDF files written uncompressed; astropy Table slicing/assignment trusted', 'light-cone catalogues not covered']


def replay_file(rec, repo):
    return True
