"""C05 - halo statistics are unpacked into consistent physical units.

* E2 (deductive, on the running code objects): the real CompaSOHaloCatalog._setup_halo_field_loaders is CALLED natively
  on an object whose header holds symbolic reals BoxSize > 0 and VelZSpace_to_kms > 0 (not assumed equal); every column
  name of user_dt / clean_dt_progen / halo_lc_dt is dispatched through the real compiled regexes (exactly one loader must
  match) and the loader closure is executed on symbolic raw columns.  The resulting z3 term must equal the expression the
  property gives for that column kind (lists below are transcribed from the property statement and the HaloStat comment):
      length-like = stored * BoxSize;  velocity-like (incl. sigmavMin/Mid/Maj/rad/tan) = stored * VelZSpace_to_kms;
      ratio columns = int16/32000 * reference column;  integer / dimensionless unchanged;
      Min^2 + Mid^2 + Maj^2 = sigmav3d^2 in the same units;  conversion off = the same with both factors 1.
  Branching on symbolic values is impossible (proxy __bool__ raises -> undecided).
* bounded end-to-end: real catalogue loads of synthetic files with convert_units on/off, cleaned on/off, light-cone layout.
"""
import os
import re
import shutil
import sys
import tempfile
import warnings

import numpy as np
import z3

from rtc import synth

INT16SCALE = 32000


class S:
    """symbolic real (one generic element of a column); numpy ufuncs and operators build z3 terms"""
    __array_priority__ = 1000

    def __init__(self, t, deps=()):
        self.t = t
        self.deps = frozenset(deps)

    @staticmethod
    def lift(x):
        if isinstance(x, S):
            return x
        if isinstance(x, (int, float, np.integer, np.floating)):
            import fractions
            return S(z3.RealVal(str(fractions.Fraction(repr(float(x))))))
        raise TypeError(f'cannot lift {type(x).__name__}')

    def _bin(self, o, f):
        o = S.lift(o)
        return S(f(self.t, o.t), self.deps | o.deps)

    def __mul__(self, o): return self._bin(o, lambda a, b: a * b)
    def __rmul__(self, o): return S.lift(o)._bin(self, lambda a, b: a * b)
    def __add__(self, o): return self._bin(o, lambda a, b: a + b)
    def __radd__(self, o): return S.lift(o)._bin(self, lambda a, b: a + b)
    def __sub__(self, o): return self._bin(o, lambda a, b: a - b)
    def __rsub__(self, o): return S.lift(o)._bin(self, lambda a, b: a - b)
    def __truediv__(self, o): return self._bin(o, lambda a, b: a / b)
    def __rtruediv__(self, o): return S.lift(o)._bin(self, lambda a, b: a / b)
    def __neg__(self): return S(-self.t, self.deps)

    def _inplace(self, o):
        # an in-place operator on a raw/halo column mutates data that other loaders read: not a pure function of its inputs
        MUTATIONS.append(sorted(self.deps))
        raise TypeError('loader mutates one of its input columns in place')

    __imul__ = __iadd__ = __isub__ = __itruediv__ = _inplace

    def __pow__(self, k):
        if isinstance(k, (int, np.integer)) and 0 <= int(k) <= 4:
            r = z3.RealVal(1)
            for _ in range(int(k)):
                r = r * self.t
            return S(r, self.deps)
        raise TypeError('symbolic power')

    def __mod__(self, k):
        return S(z3.ToReal(z3.ToInt(self.t) % int(k)), self.deps | {'%mod'})

    def reshape(self, *a):
        return self

    def __bool__(self):
        raise TypeError('branch on a symbolic value')

    def __array_ufunc__(self, ufunc, method, *inputs, **kw):
        if ufunc is np.sqrt and method == '__call__':
            x = S.lift(inputs[0])
            r = z3.Function('SQRT', z3.RealSort(), z3.RealSort())(z3.simplify(x.t))
            SQRT_FACTS.append((x.t, r))
            return S(r, x.deps)
        if kw.get('out') is not None:
            # ufunc(..., out=<an input column>) mutates data that other loaders read: not a pure function of its inputs
            deps = set()
            for x in inputs:
                if isinstance(x, S):
                    deps |= set(x.deps)
            MUTATIONS.append(sorted(deps))
            raise TypeError('loader writes into one of its input columns (out=)')
        if ufunc in (np.multiply, np.add, np.subtract, np.true_divide) and method == '__call__':
            a, b = S.lift(inputs[0]), inputs[1]
            return {np.multiply: a * b, np.add: a + b, np.subtract: a - b, np.true_divide: a / b}[ufunc]
        return NotImplemented


SQRT_FACTS = []
MUTATIONS = []


class Raw:
    def __init__(self):
        self.syms = {}

    def __getitem__(self, k):
        if k not in self.syms:
            integer = k.endswith('_i16') or k.endswith('_u16')
            v = z3.Int('raw_' + k) if integer else z3.Real('raw_' + k)
            self.syms[k] = v
        v = self.syms[k]
        return S(z3.ToReal(v) if z3.is_int(v) else v, {k})


class Halos:
    """intermediate halo columns (sigmavMaj/Min for sigmavMid): symbolic, with their own proved meaning"""

    def __init__(self, known, colnames=()):
        self.known = known
        self.colnames = list(colnames)
        self.reads = []

    def __getitem__(self, k):
        self.reads.append(k)
        if k not in self.known:
            raise KeyError(k)
        return self.known[k]


def classify(name):
    """column kind from the property statement / HaloStat comment; returns (kind, reference)"""
    m = re.fullmatch(r'(x|r100)_(L2)?com|SO(_L2max)?_(central_particle|radius)', name)
    if m:
        return 'length', None
    if re.fullmatch(r'(v|sigmav3d|meanSpeed|sigmav3d_r50|meanSpeed_r50|vcirc_max)_(L2)?com', name):
        return 'velocity', None
    m = re.fullmatch(r'(r\d{1,2}|rvcirc_max|sigmar)_((?:L2)?com)', name)
    if m:
        return 'ratio_length', 'r100_' + m.group(2)
    m = re.fullmatch(r'sigmav(Min|Maj|rad|tan)_((?:L2)?com)', name)
    if m:
        return 'ratio_velocity', 'sigmav3d_' + m.group(2)
    m = re.fullmatch(r'sigmavMid_((?:L2)?com)', name)
    if m:
        return 'mid', 'sigmav3d_' + m.group(1)
    if re.fullmatch(r'sigman_(L2)?com', name):
        return 'ratio_box', None            # int16/32000 in unit-box lengths
    if re.fullmatch(r'sigma(r|n|v)_eigenvecs(Min|Mid|Maj)_(L2)?com', name):
        return 'eigvec', None
    if name in ('pos_interp', 'vel_interp'):
        return 'lc_interp', None
    if name == 'origin':
        return 'origin', None
    return 'unchanged', None


def expected(name, raw, box, velz):
    kind, ref = classify(name)
    R = lambda k: raw[k].t       # noqa: E731
    if kind == 'length':
        return R(name) * box
    if kind == 'velocity':
        return R(name) * velz
    if kind == 'ratio_length':
        return R(name + '_i16') / INT16SCALE * R(ref) * box
    if kind == 'ratio_velocity':
        stem = name.split('_')[0].replace('Maj', 'Max')
        com = name[len(name.split('_')[0]):]
        return R(stem + '_to_sigmav3d' + com + '_i16') / INT16SCALE * R(ref) * velz
    if kind == 'ratio_box':
        return R(name + '_i16') / INT16SCALE * box
    if kind == 'unchanged':
        return R(name)
    return None


def e2_proofs(run, repo):
    from abacusnbody.data import compaso_halo_catalog as chc
    names = list(dict.fromkeys(list(chc.user_dt.names) + list(chc.clean_dt_progen.names) + list(chc.halo_lc_dt.names)))
    BOX, VELZ = z3.Reals('BoxSize VelZSpace_to_kms')
    base = [BOX > 0, VELZ > 0]
    nloaders = 0
    for convert, lc in ((True, False), (False, False), (True, True), (False, True)):
        obj = chc.CompaSOHaloCatalog.__new__(chc.CompaSOHaloCatalog)
        obj.header = {'BoxSize': S(BOX), 'VelZSpace_to_kms': S(VELZ)}
        obj.convert_units = convert
        # every other attribute the method may consult is the loader option it comes from (light-cone layout on/off)
        obj.halo_lc, obj.cleaned, obj.verbose = lc, not lc, False
        try:
            obj._setup_halo_field_loaders(passthrough=False)
        except Exception as ex:      # noqa
            run.undecided.append(f'_setup_halo_field_loaders could not be executed symbolically: {ex!r}')
            return
        box = BOX if convert else z3.RealVal(1)
        velz = VELZ if convert else z3.RealVal(1)
        proved = {}
        for name in names:
            kind, ref = classify(name)
            matches = [(pat, pat.fullmatch(name)) for pat in obj.halo_field_loaders if pat.fullmatch(name)]
            tag = f'[{name},convert_units={convert},halo_lc={lc}]'
            run.lemma(f'loader.exactly_one_match{tag}', [], z3.BoolVal(len(matches) == 1))
            if len(matches) != 1:
                continue
            if kind in ('eigvec', 'lc_interp', 'origin'):
                continue             # array-level numpy code: bounded check only
            pat, m = matches[0]
            raw = Raw()
            known = {}
            if kind == 'mid':
                com = '_' + name.split('_', 1)[1]
                for part in ('Maj', 'Min'):
                    nm = 'sigmav' + part + com
                    known[nm] = S(expected(nm, raw, box, velz), {nm})     # meaning proved for that column in this same run
            halos = Halos(known)
            del SQRT_FACTS[:]
            try:
                got = obj.halo_field_loaders[pat](m, raw, halos)
            except TypeError as ex:
                if MUTATIONS:
                    run.lemma(f'loader.pure{tag}', [], z3.BoolVal(False))        # in-place update of an input column
                    del MUTATIONS[:]
                else:
                    run.undecided.append(f'loader of {name}: {ex}')
                continue
            except Exception as ex:      # noqa
                run.undecided.append(f'loader of {name} failed symbolically: {ex!r}')
                continue
            if not isinstance(got, S):
                run.undecided.append(f'loader of {name} returned {type(got).__name__}')
                continue
            nloaders += 1
            facts = [z3.And(r >= 0, r * r == x) for x, r in SQRT_FACTS]
            if kind == 'mid':
                com = '_' + name.split('_', 1)[1]
                s3d = expected('sigmav3d' + com, raw, box, velz)
                mn = expected('sigmavMin' + com, raw, box, velz)
                mj = expected('sigmavMaj' + com, raw, box, velz)
                # the three principal dispersions are velocities whose squares add up to sigmav3d^2 (same units);
                # precondition: stored ratios consistent (Min^2 + Max^2 <= 1, sigmav3d >= 0) so that Mid is real
                hyp = base + facts + [raw['sigmav3d' + com].t >= 0, s3d * s3d - mj * mj - mn * mn >= 0]
                run.lemma(f'loader.sum_of_squares{tag}', hyp, got.t * got.t + mn * mn + mj * mj == s3d * s3d)
                run.lemma(f'loader.reads_only_declared{tag}', [], z3.BoolVal(set(halos.reads) <= {'sigmavMaj' + com, 'sigmavMin' + com} and
                                                                                got.deps <= {'sigmav3d' + com, 'sigmavMaj' + com, 'sigmavMin' + com}))
                continue
            want = expected(name, raw, box, velz)
            run.lemma(f'loader.value{tag}', base + facts, got.t == want)
            run.lemma(f'loader.pure{tag}', [], z3.BoolVal(not halos.reads))
            proved[name] = True
    run.extra['loaders_executed_symbolically'] = nloaders


# ------------------------------------------------------------------ bounded end-to-end
def expected_numeric(name, raw, box, velz):
    kind, ref = classify(name)
    f = lambda k: np.asarray(raw[k], dtype=np.float64)       # noqa: E731
    if kind == 'length':
        return f(name) * box
    if kind == 'velocity':
        return f(name) * velz
    if kind == 'ratio_length':
        r = f(ref)
        a = f(name + '_i16')
        return a / INT16SCALE * (r.reshape(-1, 1) if a.ndim == 2 else r) * box
    if kind == 'ratio_velocity':
        stem = name.split('_')[0].replace('Maj', 'Max')
        com = name[len(name.split('_')[0]):]
        return f(stem + '_to_sigmav3d' + com + '_i16') / INT16SCALE * f(ref) * velz
    if kind == 'ratio_box':
        return f(name + '_i16') / INT16SCALE * box
    if kind == 'mid':
        com = '_' + name.split('_', 1)[1]
        s3 = f('sigmav3d' + com) * velz
        mn = f('sigmavMin_to_sigmav3d' + com + '_i16') / INT16SCALE * s3
        mj = f('sigmavMax_to_sigmav3d' + com + '_i16') / INT16SCALE * s3
        return np.sqrt(np.maximum(s3 * s3 - mn * mn - mj * mj, 0))
    if kind == 'unchanged':
        return f(name)
    return None


def judge_catalog(seed, box, velz, cleaned, int_box=False):
    from abacusnbody.data import compaso_halo_catalog as chc
    root = tempfile.mkdtemp(prefix='c05_')
    try:
        T = synth.make_catalog(root, (4, 3), seed=seed, box=int(box) if int_box else box, velz=velz, cleaned=True)
        raw = {k: np.concatenate([sl['raw'][k] for sl in T.slabs]) for k in T.slabs[0]['raw']}
        if cleaned:
            for k in T.slabs[0]['clean']:
                raw[k] = np.concatenate([sl['clean'][k] for sl in T.slabs])
        cats = {}
        for conv in (True, False):
            with warnings.catch_warnings():
                warnings.simplefilter('ignore')
                cats[conv] = chc.CompaSOHaloCatalog(T.groupdir, fields='all', cleaned=cleaned, convert_units=conv, subsamples=False)
        # the same columns requested in the opposite and in a shuffled order (fields are loaded in reverse request order, so a loader
        # that disturbs a shared raw column only shows for some orders); keyed 'rev' / 'shuf', converted units
        allnames = list(cats[True].halos.colnames)
        rng = np.random.default_rng(seed)
        for key, order in (('rev', allnames[::-1]), ('shuf', list(rng.permutation(allnames)))):
            with warnings.catch_warnings():
                warnings.simplefilter('ignore')
                cats[key] = chc.CompaSOHaloCatalog(T.groupdir, fields=list(order), cleaned=cleaned, convert_units=True, subsamples=False)
        for conv in (True, False, 'rev', 'shuf'):
            b, v = (float(box), float(velz)) if conv else (1.0, 1.0)
            for name in allnames:
                if name not in cats[conv].halos.colnames:
                    return f'column {name} missing when the fields are requested in order {conv!r}'
                if cleaned and name == 'N':
                    want = np.asarray(raw['N_total'], dtype=np.float64)      # cleaned catalogues expose the cleaned count as N
                else:
                    want = expected_numeric(name, raw, b, v)
                if want is None:
                    continue
                got = np.asarray(cats[conv].halos[name], dtype=np.float64)
                if got.shape != want.shape:
                    return f'{name}: shape {got.shape} expected {want.shape}'
                tol = 2e-5 * np.maximum(np.abs(want), 1e-3 * max(b, v, 1.0))
                if classify(name)[0] == 'mid':
                    tol = 2e-3 * np.maximum(np.abs(want), 1e-2 * v)
                if not np.all(np.abs(got - want) <= tol):
                    k = int(np.argmax((np.abs(got - want) / tol).reshape(len(got), -1).max(axis=1)))
                    return (f'column {name} (kind {classify(name)[0]}), convert_units={conv}, cleaned={cleaned}, BoxSize={box!r}, '
                            f'VelZSpace_to_kms={velz}: row {k} is {got[k]} expected {want[k]}')
        # eigenvectors / integer columns identical with conversion on and off
        for name in cats[True].halos.colnames:
            if classify(name)[0] in ('eigvec', 'unchanged') and not np.array_equal(np.asarray(cats[True].halos[name]), np.asarray(cats[False].halos[name])):
                return f'dimensionless column {name} changes with convert_units'
        c = cats[True].halos
        for com in ('_com', '_L2com'):
            s2 = np.asarray(c['sigmavMin' + com], float) ** 2 + np.asarray(c['sigmavMid' + com], float) ** 2 + np.asarray(c['sigmavMaj' + com], float) ** 2
            ref = np.asarray(c['sigmav3d' + com], float) ** 2
            if not np.allclose(s2, ref, rtol=2e-3):
                return f'sigmavMin^2+Mid^2+Maj^2 / sigmav3d^2 = {(s2 / ref)[:3].tolist()} for {com} (BoxSize={box}, VelZSpace_to_kms={velz})'
        return None
    finally:
        shutil.rmtree(root, ignore_errors=True)


def _bworker(t):
    """one catalogue, then - in the same process - a second one with other unit constants (anything that remembers the first
    catalogue's BoxSize / VelZSpace_to_kms shows up in the second)"""
    try:
        why = judge_catalog(*t)
        if why:
            return why
        seed, box, velz, cleaned, ib = t
        why = judge_catalog(seed + 1000, box * 4 if not ib else box * 4, velz * 0.75, cleaned, ib)
        return ('second catalogue loaded in the same process: ' + why) if why else None
    except Exception as ex:      # noqa
        import traceback
        return f'catalogue load raised {ex!r} ({traceback.format_exc().strip().splitlines()[-3].strip()})'


def lemma_replayer(obl, model):
    """a refuted loader obligation is replayed end-to-end with the model's unit constants on a synthetic catalogue"""
    import fractions
    cands = []
    if model:
        try:
            b = float(fractions.Fraction(str(model.get('BoxSize', '37.5'))))
            v = float(fractions.Fraction(str(model.get('VelZSpace_to_kms', '2917'))))
            if b > 0 and v > 0:
                cands.append((b, v))
        except Exception:
            pass
    cands += [(37.5, 2917.0), (1.0, 0.5)]
    for b, v in cands:
        for cleaned in (False, True):
            key = (round(b, 9), round(v, 9), cleaned)
            if key not in _REPLAY_MEMO:
                _REPLAY_MEMO[key] = judge_catalog(7, b, v, cleaned)
            why = _REPLAY_MEMO[key]
            if why:
                return True, why
    return False, 'no case reproduced'


_REPLAY_MEMO = {}


def check(run):
    run.level = 'proof'
    run.replayers['lemma'] = lemma_replayer
    e2_proofs(run, run.repo)
    run.discharge()
    tasks = [(run.seed + 50 + k, box, velz, cleaned, ib) for k, (box, velz, ib) in enumerate([(37.5, 2917.0, False), (2000.0, 200000.0, False), (1.0, 0.37, False), (500.0, 1234.5, True)])
             for cleaned in (True, False)]
    res = run.pmap(_bworker, tasks)
    for t, why in zip(tasks, res):
        if why:
            run.bounded_violation('catalogue column not in the documented units', dict(BoxSize=t[1], VelZSpace_to_kms=t[2], cleaned=t[3], integer_BoxSize=t[4]), why)
            break
    run.add_bounded('real catalogue loads (convert_units on/off, fields in data-model / reversed / shuffled order, two catalogues with different units per process) vs raw arrays and the documented factors', len(tasks) * 8, len(tasks) * 2,
                    '4 (BoxSize, VelZSpace_to_kms) pairs in no round ratio (one with an integer-typed BoxSize) x cleaned on/off x all user/cleaned columns; int16 ratios over their full range',
                    [dict(BoxSize=37.5, VelZSpace_to_kms=2917.0)])
    run.assumptions += ['floats are reals in the symbolic execution of the loaders (int16 * factor wrap-around, float32 rounding only in the bounded check)',
                        'eigenvector, light-cone interpolation and origin loaders are array-level numpy code: bounded only (C18 covers the Euler16 decoder)',
                        'light-cone layout end-to-end not covered (loader closures are the same objects)']
    run.trusted += ['the symbolic proxies (class S) implement +,-,*,/,**,sqrt faithfully; anything else raises -> undecided']


def replay_file(rec, repo):
    w = rec.get('witness', {})
    if 'BoxSize' in w:
        return bool(judge_catalog(51, w['BoxSize'], w['VelZSpace_to_kms'], w.get('cleaned', False), w.get('integer_BoxSize', False)))
    return True
