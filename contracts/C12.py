"""C12 - HOD staging keeps every per-halo attribute on the same row.

* structural proof on the real AST of AbacusHOD.staging (all inputs): every per-halo array (allocated with length
  Nhalos_tot) that reaches `halo_data` is, inside the "ids not sorted" branch, replaced by itself indexed with the SAME
  permutation `sortind = np.argsort(hid)` (numpy contract: a[perm][r] = a[perm[r]]), under the same option guards as its
  allocation; and inside the slab loop every per-halo (per-particle) destination receives the same window
  [ticker : ticker + N_slab].  So row r of every array describes halo sortind[r].
* E1 proof of _searchsorted_parallel (real AST): res[i] = searchsorted(a, b[i]) for every i, in bounds, disjoint prange
  footprints; with the library contract of np.searchsorted (left insertion point on a sorted array) a present id is found.
* bounded: the real staging() on synthetic HDF5 slabs (ids increasing / decreasing / interleaved across slabs, option flags).
"""
import ast
import itertools
import logging
import os
import shutil
import sys
import tempfile
import types

import numpy as np
import z3

from pyvc.engine import FnSpec, LoopSpec, CalleeSpec, SV, Arr, DT, fresh

FILE = 'abacusnbody/hod/abacus_hod.py'


# ------------------------------------------------------------------ structural analysis
def structural(repo):
    src = open(os.path.join(repo, FILE)).read()
    tree = ast.parse(src)
    cls = [n for n in tree.body if isinstance(n, ast.ClassDef) and n.name == 'AbacusHOD']
    fn = [n for n in cls[0].body if isinstance(n, ast.FunctionDef) and n.name == 'staging'] if cls else []
    if not fn:
        return None, ['AbacusHOD.staging not found'], {}
    fn = fn[0]
    problems = []

    def guard_of(node, parents):
        gs = []
        for p in parents:
            if isinstance(p, ast.If):
                gs.append(ast.unparse(p.test))
        return tuple(gs)
    # 1. per-halo / per-particle allocations:  name = np.empty([Nhalos_tot] | (Nhalos_tot, 3) ...)
    alloc = {}

    def walk(body, parents):
        for st in body:
            if isinstance(st, ast.Assign) and len(st.targets) == 1 and isinstance(st.targets[0], ast.Name) and isinstance(st.value, ast.Call):
                txt = ast.unparse(st.value)
                if txt.startswith('np.empty(') and ('Nhalos_tot' in txt or 'Nparts_tot' in txt):
                    alloc[st.targets[0].id] = ('halo' if 'Nhalos_tot' in txt else 'part', guard_of(st, parents))
            for fld in ('body', 'orelse'):
                sub = getattr(st, fld, None)
                if isinstance(sub, list) and sub and isinstance(sub[0], ast.stmt):
                    walk(sub, parents + [st] if fld == 'body' else parents)
    walk(fn.body, [])
    halo_arrays = {k for k, v in alloc.items() if v[0] == 'halo'}
    # 2. names that reach halo_data
    reach = {}
    for st in ast.walk(fn):
        if isinstance(st, ast.Assign) and isinstance(st.targets[0], ast.Name) and st.targets[0].id == 'halo_data' and isinstance(st.value, ast.Dict):
            for k, v in zip(st.value.keys, st.value.values):
                if isinstance(v, ast.Name):
                    reach[k.value] = v.id
        if isinstance(st, ast.Assign) and isinstance(st.targets[0], ast.Subscript) and isinstance(st.targets[0].value, ast.Name) \
                and st.targets[0].value.id == 'halo_data' and isinstance(st.value, ast.Name):
            reach[ast.literal_eval(st.targets[0].slice)] = st.value.id
    # 3. the sort block
    sortif = None
    for st in fn.body:
        if isinstance(st, ast.If) and 'hid[:-1] <= hid[1:]' in ast.unparse(st.test) and ast.unparse(st.test).startswith('not'):
            sortif = st
    if sortif is None:
        return None, ['sortedness test `if not np.all(hid[:-1] <= hid[1:])` not found'], {}
    permuted = {}
    perm_name = None

    def walk_sort(body, parents):
        nonlocal perm_name
        for st in body:
            if isinstance(st, ast.Assign) and isinstance(st.targets[0], ast.Name):
                t = st.targets[0].id
                v = st.value
                if isinstance(v, ast.Call) and ast.unparse(v.func) == 'np.argsort':
                    if ast.unparse(v) != 'np.argsort(hid)':
                        problems.append(f'permutation computed from {ast.unparse(v)}, not from the halo ids')
                    perm_name = t
                elif isinstance(v, ast.Subscript) and isinstance(v.value, ast.Name) and isinstance(v.slice, ast.Name):
                    if v.value.id != t:
                        problems.append(f'line {st.lineno}: {t} = {ast.unparse(v)} mixes arrays')
                    permuted[t] = (v.slice.id, guard_of(st, parents))
            elif isinstance(st, ast.If):
                walk_sort(st.body, parents + [st])
                if st.orelse:
                    problems.append('else-branch inside the sort block')
            elif isinstance(st, ast.Expr):
                continue
            else:
                problems.append(f'line {st.lineno}: unexpected statement in the sort block: {ast.unparse(st)[:60]}')
    walk_sort(sortif.body, [])
    for key, nm in sorted(reach.items()):
        if nm not in halo_arrays:
            problems.append(f'halo_data[{key!r}] = {nm} is not a per-halo allocation')
            continue
        if nm not in permuted:
            problems.append(f'per-halo array {nm} (halo_data[{key!r}]) is not permuted when the ids are sorted')
            continue
        if permuted[nm][0] != perm_name:
            problems.append(f'{nm} permuted with {permuted[nm][0]} instead of {perm_name}')
        if permuted[nm][1] != alloc[nm][1]:
            problems.append(f'{nm} permuted under guard {permuted[nm][1]} but allocated under {alloc[nm][1]}')
    if 'hid' not in permuted:
        problems.append('the ids themselves are not permuted')
    # 4. slab loop: every destination window is [ticker : ticker + N[eslab - start]] with the ticker of its family
    loops = [st for st in fn.body if isinstance(st, ast.For) and 'halo_ticker' in ast.unparse(st)]
    nwin = 0
    if not loops:
        problems.append('slab loop not found')
    else:
        for st in ast.walk(loops[-1]):
            if isinstance(st, ast.Assign) and isinstance(st.targets[0], ast.Subscript) and isinstance(st.targets[0].value, ast.Name):
                nm = st.targets[0].value.id
                if nm in alloc:
                    fam = alloc[nm][0]
                    tick, cnt = ('halo_ticker', 'Nhalos') if fam == 'halo' else ('parts_ticker', 'Nparts')
                    want = f'{tick}:{tick} + {cnt}[eslab - start]'
                    if ast.unparse(st.targets[0].slice) != want:
                        problems.append(f'line {st.lineno}: {nm}[{ast.unparse(st.targets[0].slice)}] is not the window {want}')
                    nwin += 1
        written = {st.targets[0].value.id for st in ast.walk(loops[-1]) if isinstance(st, ast.Assign) and isinstance(st.targets[0], ast.Subscript)
                   and isinstance(st.targets[0].value, ast.Name)}
        for nm in reach.values():
            if nm in halo_arrays and nm not in written:
                problems.append(f'{nm} is never filled in the slab loop')
    facts = dict(per_halo_arrays=sorted(halo_arrays), reaching_halo_data=reach, permuted=sorted(permuted), permutation=perm_name, window_stores=nwin)
    return (not problems), problems, facts


# ------------------------------------------------------------------ _searchsorted_parallel (E1)
def ghosts(g):
    eng = g.eng
    SS = z3.Function('SEARCHSORTED', z3.IntSort(), z3.IntSort())      # left insertion point of value v in the sorted array a
    a = g.arr_term('a')
    n = g.arg('a').shape[0]
    v, j = z3.Ints('sv sj')
    # library contract of np.searchsorted(a, v) for sorted a (side='left'): 0 <= p <= len(a), a[j] < v for j < p, a[j] >= v for j >= p
    g.axiom(z3.ForAll([v], z3.And(0 <= SS(v), SS(v) <= n), patterns=[SS(v)]))
    g.axiom(z3.ForAll([v, j], z3.Implies(z3.And(0 <= j, j < SS(v)), z3.Select(a, j) < v), patterns=[z3.MultiPattern(SS(v), z3.Select(a, j))]))
    g.axiom(z3.ForAll([v, j], z3.Implies(z3.And(SS(v) <= j, j < n), z3.Select(a, j) >= v), patterns=[z3.MultiPattern(SS(v), z3.Select(a, j))]))
    g.fn('SEARCHSORTED', lambda x: SV(SS(z3.simplify(eng.tosv(x).t)), 'int'))


SS_CALLEE = CalleeSpec(['arr', 'v'], requires=[], ensures=['result == SEARCHSORTED(v)'], result='int')


def spec_searchsorted():
    return FnSpec(FILE, '_searchsorted_parallel', prop='C12', name='_searchsorted_parallel',
                  args=dict(a='int[:]!ro', b='int[:]!ro'), ghosts=ghosts, callees={'numpy.searchsorted': SS_CALLEE},
                  requires=['forall((p, q), 0 <= p and p < q and q < len(a), a[p] < a[q])'],          # sorted, duplicate-free ids (global form: no induction needed)
                  ensures=['len(result) == len(b)', 'forall(q, 0, len(b), result[q] == SEARCHSORTED(b[q]))',
                           # each particle's host index points to the halo whose id the particle records (when present)
                           'forall(q, 0, len(b), implies(exists(h, 0, len(a), a[h] == b[q]), 0 <= result[q] and result[q] < len(a) and a[result[q]] == b[q]))'],
                  frame=[],
                  loops={0: LoopSpec(invariant=['forall(q, 0, i, res[q] == SEARCHSORTED(b[q]))'], writes=dict(res=('q', 'q == i')))})


# ------------------------------------------------------------------ bounded: real staging on synthetic HDF5 slabs
HDT = np.dtype([('id', 'i8'), ('x_L2com', 'f4', 3), ('v_L2com', 'f4', 3), ('randoms_gaus_vrms', 'f4', 3), ('randoms_exp', 'f4', 3),
                ('sigmav3d_L2com', 'f4'), ('r98_L2com', 'f4'), ('r25_L2com', 'f4'), ('N', 'u4'), ('deltac_rank', 'f4'), ('fenv_rank', 'f4'),
                ('shear_rank', 'f4'), ('multi_halos', 'f4'), ('randoms', 'f4')])
PDT = np.dtype([('pos', 'f4', 3), ('vel', 'f4', 3), ('halo_vel', 'f4', 3), ('halo_mass', 'f4'), ('halo_id', 'i8'), ('Np', 'f4'),
                ('downsample_halo', 'f4'), ('randoms', 'f4'), ('halo_deltac', 'f4'), ('halo_fenv', 'f4'), ('halo_shear', 'f4'),
                ('ranks', 'f4'), ('ranksv', 'f4'), ('ranksp', 'f4'), ('ranksr', 'f4'), ('ranksc', 'f4')])


def import_hod():
    if 'parallel_numpy_rng' not in sys.modules:
        m = types.ModuleType('parallel_numpy_rng')
        m.MTGenerator = object
        sys.modules['parallel_numpy_rng'] = m
    if 'Corrfunc' not in sys.modules:
        c = types.ModuleType('Corrfunc')
        ct = types.ModuleType('Corrfunc.theory')
        ct.DDrppi = ct.DDsmu = None
        c.theory = ct
        sys.modules['Corrfunc'] = c
        sys.modules['Corrfunc.theory'] = ct
    from abacusnbody.hod import abacus_hod
    return abacus_hod


def judge(idsets, flags, seed):
    """idsets: list (one per slab) of halo id lists"""
    import asdf
    import h5py
    abacus_hod = import_hod()
    rng = np.random.default_rng(seed)
    root = tempfile.mkdtemp(prefix='c12_')
    try:
        sim, z = 'Sim', 0.5
        hi = os.path.join(root, 'sims', sim, 'halos', 'z0.500', 'halo_info')
        sub = os.path.join(root, 'subs', sim, 'z0.500')
        os.makedirs(hi)
        os.makedirs(sub)
        hdr = {'H0': 70.0, 'BoxSize': 100.0, 'ParticleMassHMsun': 1e9, 'VelZSpace_to_kms': 5000.0}
        truth = {}
        ptruth = []
        mt = '_MT' if flags.get('mt') else ''
        wr = '_withranks' if flags.get('ranks') else ''
        for e, ids in enumerate(idsets):
            asdf.AsdfFile({'header': hdr, 'data': {}}).write_to(os.path.join(hi, f'halo_info_{e:03d}.asdf'))
            h = np.zeros(len(ids), dtype=HDT)
            for f in HDT.names:
                if f != 'id':
                    h[f] = rng.random(h[f].shape) + 0.5
            h['id'] = ids
            h['N'] = rng.integers(10, 100, len(ids))
            with h5py.File(os.path.join(sub, f'halos_xcom_{e}_seed600_abacushod_oldfenv{mt}_new.h5'), 'w') as f:
                f['halos'] = h
            npart = int(rng.integers(0, 7)) if len(ids) else 0
            p = np.zeros(npart, dtype=PDT)
            for f in PDT.names:
                p[f] = rng.random(p[f].shape) + 0.5
            if npart:
                p['halo_id'] = rng.choice(ids, npart)
            with h5py.File(os.path.join(sub, f'particles_xcom_{e}_seed600_abacushod_oldfenv{mt}{wr}_new.h5'), 'w') as f:
                f['particles'] = p
            for r in h:
                truth[int(r['id'])] = r.copy()
            ptruth += [r.copy() for r in p]
        o = abacus_hod.AbacusHOD.__new__(abacus_hod.AbacusHOD)
        o.logger = logging.getLogger('c12')
        o.logger.setLevel(logging.ERROR)
        o.output_dir = os.path.join(root, 'out')
        o.sim_name, o.sim_dir, o.z_mock = sim, os.path.join(root, 'sims'), z
        o.subsample_dir = os.path.join(root, 'subs')
        o.halo_lc, o.n_chunks, o.chunk = False, 1, -1
        o.tracers = {'LRG': {}, 'ELG': {}} if flags.get('mt') else {'LRG': {}}
        o.force_mt = False
        o.want_ranks, o.want_AB, o.want_shear, o.want_expvel = bool(flags.get('ranks')), bool(flags.get('AB')), bool(flags.get('shear')), bool(flags.get('expvel'))
        o.z_type = 'primary'
        try:
            hd, pd, params, md = o.staging()
        except Exception as ex:      # noqa
            return f'staging raised {ex!r}'
        hid = hd['hid']
        if len(hid) != len(truth) or np.any(np.diff(hid) < 0) or sorted(int(i) for i in hid) != sorted(truth):
            return f'ids {hid.tolist()} are not exactly the halos of the slab files {idsets} in increasing order'
        fields = [('hpos', 'x_L2com'), ('hvel', 'v_L2com'), ('hmultis', 'multi_halos'), ('hrandoms', 'randoms'),
                  ('hveldev', 'randoms_exp' if flags.get('expvel') else 'randoms_gaus_vrms'), ('hsigma3d', 'sigmav3d_L2com'), ('hrvir', 'r98_L2com')]
        if flags.get('AB'):
            fields += [('hdeltac', 'deltac_rank'), ('hfenv', 'fenv_rank')]
        if flags.get('shear'):
            fields += [('hshear', 'shear_rank')]
        for key, src in fields:
            for r, i in enumerate(hid):
                if not np.allclose(hd[key][r], truth[int(i)][src]):
                    return f"halo_data['{key}'][{r}] describes another halo than id {int(i)} at the same row (slab ids {idsets})"
        for r, i in enumerate(hid):
            t = truth[int(i)]
            if not np.allclose(hd['hc'][r], t['r98_L2com'] / t['r25_L2com']):
                return f"halo_data['hc'][{r}] (concentration) describes another halo than id {int(i)} (slab ids {idsets})"
            if not np.allclose(hd['hmass'][r], float(t['N']) * 1e9):
                return f"halo_data['hmass'][{r}] describes another halo than id {int(i)}"
        if len(pd['phid']):
            if np.any(pd['pinds'] < 0) or np.any(pd['pinds'] >= len(hid)):
                return f"particle host indices {pd['pinds'].tolist()} point outside the {len(hid)} halos"
            if not np.all(hid[pd['pinds']] == pd['phid']):
                return 'a particle host index does not point to the halo whose id the particle records'
            for r, t in enumerate(ptruth):
                if int(pd['phid'][r]) != int(t['halo_id']) or not np.allclose(pd['ppos'][r], t['pos']):
                    return f'particle row {r} misaligned'
        return None
    finally:
        shutil.rmtree(root, ignore_errors=True)


def id_layouts(tier):
    out = [[[10, 20, 30], [40, 50]], [[130, 110, 120, 140], [30, 10, 20, 40]], [[5, 50, 500], [6, 60, 600]], [[3, 2, 1]], [[7], [], [5, 6]],
           [[100, 1], [50, 51], [2, 99]], [[1, 2, 3]], [[], []], [[9, 8], [7, 6], [5, 4]],
           # 64-bit ids that differ only below the float64 mantissa (real catalogue ids are wide bit fields): a lookup through float64 merges them
           [[2 ** 53 + 3, 2 ** 53 + 1, 2 ** 53 + 2], [2 ** 60 + 5, 2 ** 60 + 4, 7]],
           # three slabs in rotated order with unequal sizes (a permutation that is not its own inverse)
           [[40, 41, 42, 43], [70, 71], [10, 11, 12]]]
    return out if tier == 'quick' else out + [[[k * 7 % 23 + 1 for k in range(12)][i::3] for i in range(3)]]


def check(run):
    run.level = 'other'
    ok, problems, facts = structural(run.repo)
    run.extra['structural'] = dict(holds=ok, problems=problems, **{k: (v if not isinstance(v, dict) else dict(v)) for k, v in facts.items()})
    if ok is None:
        run.undecided.append('structural analysis: ' + '; '.join(problems))
    elif not ok:
        run.bounded_violation('staging does not apply one permutation to every per-halo array', facts, '; '.join(problems))
    run.prove(spec_searchsorted())
    run.discharge()
    nev = 0
    bad = None
    flagsets = [dict(AB=True), dict(), dict(AB=True, shear=True, mt=True), dict(expvel=True), dict(AB=True, ranks=True)]
    for k, ids in enumerate(id_layouts(run.tier)):
        for fl in (flagsets if k < 4 else flagsets[:2]):
            why = judge(ids, fl, run.seed + k)
            nev += 1
            if why and not bad:
                bad = (dict(slab_ids=ids, flags=fl), why)
    if bad:
        run.bounded_violation('staging rows misaligned', bad[0], bad[1])
    run.add_bounded('real AbacusHOD.staging on synthetic HDF5 slabs', nev, nev,
                    'id layouts: increasing, decreasing, interleaved, rotated across 1-3 slabs, empty slabs, empty catalogue, ids above 2^53 differing in the low bits; flags assembly bias / shear (+MT files) / exponential velocities / ranks',
                    [dict(slab_ids=[[130, 110, 120, 140], [30, 10, 20, 40]], flags=dict(AB=True))])
    run.extra['explanation'] = ('row alignment decided for all inputs by a structural analysis of the real AST (one argsort permutation applied to every '
                                'per-halo array that reaches halo_data; uniform slab windows) under the numpy contracts for fancy indexing and argsort; '
                                '_searchsorted_parallel proved by the E1 engine; bounded run-time replay on synthetic slabs')
    run.assumptions += ['numpy contracts: a[perm][r] == a[perm[r]]; np.argsort(hid) is a permutation that sorts hid; np.searchsorted(a, v) is the left insertion point on sorted a',
                        'h5py datasets behave as arrays; file reading is not modelled', 'halo ids are duplicate-free (precondition in the property)']


def replay_file(rec, repo):
    ok, problems, facts = structural(repo)
    if ok is False:
        return True
    w = rec.get('witness', {})
    if 'slab_ids' in w:
        return bool(judge(w['slab_ids'], w.get('flags', {}), 0))
    return False
