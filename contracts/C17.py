"""C17 - partition_parallel returns a stripe-ordered (stable) permutation of its input.

Spec (stable counting sort, no thread count in it):  KEY(q) = min(floor(x_q * npartition / BoxSize), npartition-1);
H(k, i) = #{q < i : KEY(q) = k};  G(k, i) = #{q < i : KEY(q) < k};  DEST(q) = G(KEY(q), N) + H(KEY(q), q).
Postcondition: psort[DEST(q)] = pos[q], wsort[DEST(q)] = weights[q], starts[k] = G(k, N), starts[npartition] = N.
DEST is injective, stable, and maps stripe k into [starts[k], starts[k+1]) - lemmas proved by induction below.
"""
import itertools
import random

import numpy as np
import z3

from pyvc.engine import FnSpec, LoopSpec, CalleeSpec, SV, Arr, St, DT, I, fresh

TSC = 'abacusnbody/analysis/tsc.py'
R = z3.ToReal
Hf = z3.Function('H', z3.IntSort(), z3.IntSort(), z3.IntSort())
Gf = z3.Function('G', z3.IntSort(), z3.IntSort(), z3.IntSort())
KEYf = z3.Function('KEY', z3.IntSort(), z3.IntSort())


def recurrences(N, NP):
    k, i = z3.Ints('rk ri')
    return [
        z3.ForAll([k], Hf(k, 0) == 0, patterns=[Hf(k, 0)]),
        z3.ForAll([k], Gf(k, 0) == 0, patterns=[Gf(k, 0)]),
        z3.ForAll([k, i], z3.Implies(i >= 0, Hf(k, i + 1) == Hf(k, i) + z3.If(KEYf(i) == k, 1, 0)), patterns=[Hf(k, i + 1)]),
        z3.ForAll([k, i], z3.Implies(i >= 0, Gf(k, i + 1) == Gf(k, i) + z3.If(KEYf(i) < k, 1, 0)), patterns=[Gf(k, i + 1)]),
    ]


def lemma_axioms(N, NP):
    """statements of the lemmas (proved by induction in prove_lemmas) used as axioms inside the function proofs"""
    k, k2, i, j = z3.Ints('lk lk2 li lj')
    keys_ok = z3.ForAll([i], z3.Implies(z3.And(0 <= i, i < N), z3.And(0 <= KEYf(i), KEYf(i) < NP)), patterns=[KEYf(i)])
    return dict(
        keys_ok=keys_ok,
        H_mono=z3.ForAll([k, i, j], z3.Implies(z3.And(0 <= i, i <= j), z3.And(0 <= Hf(k, i), Hf(k, i) <= Hf(k, j))),
                         patterns=[z3.MultiPattern(Hf(k, i), Hf(k, j))]),
        H_le=z3.ForAll([k, i], z3.Implies(i >= 0, Hf(k, i) <= i), patterns=[Hf(k, i)]),
        G_split=z3.ForAll([k, i], z3.Implies(i >= 0, Gf(k + 1, i) == Gf(k, i) + Hf(k, i)), patterns=[Gf(k + 1, i)]),
        G_zero=z3.ForAll([i], z3.Implies(z3.And(0 <= i, i <= N), Gf(0, i) == 0), patterns=[Gf(0, i)]),
        G_total=z3.ForAll([i], z3.Implies(z3.And(0 <= i, i <= N), Gf(NP, i) == i), patterns=[Gf(NP, i)]),
        DEST_inj=z3.ForAll([i, j], z3.Implies(z3.And(0 <= i, i < j, j < N),
                                              Gf(KEYf(i), N) + Hf(KEYf(i), i) != Gf(KEYf(j), N) + Hf(KEYf(j), j)),
                           patterns=[z3.MultiPattern(Hf(KEYf(i), i), Hf(KEYf(j), j))]),
        DEST_range=z3.ForAll([i], z3.Implies(z3.And(0 <= i, i < N), z3.And(0 <= Gf(KEYf(i), N) + Hf(KEYf(i), i),
                                                                          Gf(KEYf(i), N) + Hf(KEYf(i), i) < N,
                                                                          Gf(KEYf(i), N) <= Gf(KEYf(i), N) + Hf(KEYf(i), i),
                                                                          Gf(KEYf(i), N) + Hf(KEYf(i), i) < Gf(KEYf(i) + 1, N))),
                             patterns=[Hf(KEYf(i), i)]),
        G_mono_k=z3.ForAll([k, k2, i], z3.Implies(z3.And(0 <= k, k <= k2, i >= 0, i <= N), z3.And(0 <= Gf(k, i), Gf(k, i) <= Gf(k2, i))),
                           patterns=[z3.MultiPattern(Gf(k, i), Gf(k2, i))]),
    )


def prove_lemmas(run):
    N, NP = z3.Ints('N NP')
    rec = recurrences(N, NP)
    ax = lemma_axioms(N, NP)
    k, k2, i, j, b = z3.Ints('pk pk2 pi pj pb')
    base = rec + [N >= 0, NP >= 1, ax['keys_ok']]
    # H_mono by induction on j
    P = lambda jj: z3.ForAll([k, i], z3.Implies(z3.And(0 <= i, i <= jj), z3.And(0 <= Hf(k, i), Hf(k, i) <= Hf(k, jj))))   # noqa: E731
    run.lemma('lemma.H_mono.base', base, P(z3.IntVal(0)))
    run.lemma('lemma.H_mono.step', base + [b >= 0, P(b)], P(b + 1))
    L = lambda ii: z3.ForAll([k], Hf(k, ii) <= ii)      # noqa: E731
    run.lemma('lemma.H_le.base', base, L(z3.IntVal(0)))
    run.lemma('lemma.H_le.step', base + [b >= 0, L(b)], L(b + 1))
    # G_split by induction on i
    Q = lambda ii: z3.ForAll([k], Gf(k + 1, ii) == Gf(k, ii) + Hf(k, ii))      # noqa: E731
    run.lemma('lemma.G_split.base', base, Q(z3.IntVal(0)))
    run.lemma('lemma.G_split.step', base + [b >= 0, Q(b)], Q(b + 1))
    # G_zero, G_total by induction on i
    Z = lambda ii: z3.Implies(ii <= N, Gf(0, ii) == 0)       # noqa: E731
    run.lemma('lemma.G_zero.base', base, Z(z3.IntVal(0)))
    run.lemma('lemma.G_zero.step', base + [b >= 0, Z(b)], Z(b + 1))
    T = lambda ii: z3.Implies(ii <= N, Gf(NP, ii) == ii)       # noqa: E731
    run.lemma('lemma.G_total.base', base, T(z3.IntVal(0)))
    run.lemma('lemma.G_total.step', base + [b >= 0, T(b)], T(b + 1))
    # G_mono_k by induction on k2 (uses G_split and H >= 0)
    M = lambda kk: z3.ForAll([k, i], z3.Implies(z3.And(0 <= k, k <= kk, i >= 0, i <= N), z3.And(0 <= Gf(k, i), Gf(k, i) <= Gf(kk, i))))   # noqa: E731
    run.lemma('lemma.G_mono_k.base', base + [ax['G_zero'], ax['H_mono'], ax['G_split']], M(z3.IntVal(0)))
    run.lemma('lemma.G_mono_k.step', base + [ax['G_zero'], ax['H_mono'], ax['G_split'], b >= 0, M(b)], M(b + 1))
    # consequences used as postconditions: DEST in its stripe, injective, stable
    allax = base + [v for n_, v in ax.items() if not n_.startswith('DEST')]
    D = lambda q: Gf(KEYf(q), N) + Hf(KEYf(q), q)       # noqa: E731
    q1, q2 = z3.Ints('q1 q2')
    run.lemma('lemma.DEST_in_stripe', allax + [0 <= q1, q1 < N, Hf(KEYf(q1), q1 + 1) <= Hf(KEYf(q1), N),
                                               Hf(KEYf(q1), q1 + 1) == Hf(KEYf(q1), q1) + 1, 0 <= Hf(KEYf(q1), q1),
                                               Gf(KEYf(q1) + 1, N) == Gf(KEYf(q1), N) + Hf(KEYf(q1), N),
                                               Gf(KEYf(q1) + 1, N) <= Gf(NP, N), Gf(NP, N) == N, 0 <= Gf(KEYf(q1), N)],
              z3.And(Gf(KEYf(q1), N) <= D(q1), D(q1) < Gf(KEYf(q1) + 1, N), D(q1) < N, D(q1) >= 0))
    run.lemma('lemma.DEST_stable_within_key', allax + [0 <= q1, q1 < q2, q2 < N, KEYf(q1) == KEYf(q2), Hf(KEYf(q1), q1 + 1) <= Hf(KEYf(q1), q2)],
              D(q1) < D(q2))
    run.lemma('lemma.DEST_ordered_across_keys', allax + [0 <= q1, q1 < N, 0 <= q2, q2 < N, KEYf(q1) < KEYf(q2),
                                                           Hf(KEYf(q1), q1 + 1) <= Hf(KEYf(q1), N), Gf(KEYf(q1) + 1, N) <= Gf(KEYf(q2), N)],
              D(q1) < D(q2))
    core = base + [ax['H_mono'], ax['G_split'], ax['G_zero'], ax['G_total'], ax['G_mono_k']]
    run.lemma('lemma.DEST_inj', core + [0 <= q1, q1 < q2, q2 < N,
                                        Hf(KEYf(q1), q1 + 1) <= Hf(KEYf(q1), q2), Hf(KEYf(q1), q1 + 1) <= Hf(KEYf(q1), N),
                                        Hf(KEYf(q2), q2 + 1) <= Hf(KEYf(q2), N),
                                        z3.Implies(KEYf(q1) < KEYf(q2), Gf(KEYf(q1) + 1, N) <= Gf(KEYf(q2), N)),
                                        z3.Implies(KEYf(q2) < KEYf(q1), Gf(KEYf(q2) + 1, N) <= Gf(KEYf(q1), N))],
              D(q1) != D(q2))
    run.lemma('lemma.DEST_range', core + [0 <= q1, q1 < N, Hf(KEYf(q1), q1 + 1) <= Hf(KEYf(q1), N),
                                          Gf(KEYf(q1) + 1, N) <= Gf(NP, N)],
              z3.And(0 <= D(q1), D(q1) < N, D(q1) < Gf(KEYf(q1) + 1, N)))
    # link between numpy's transposed exclusive prefix sum (block contract) and the closed form, by nested induction
    Tn = z3.Int('T')
    Cn = z3.Function('Cn', z3.IntSort(), z3.IntSort(), z3.IntSort())
    E = z3.Function('E', z3.IntSort(), z3.IntSort(), z3.IntSort())
    ts = z3.Function('ts', z3.IntSort(), z3.IntSort())
    t = z3.Int('pt')
    blk = [Tn >= 1, ts(0) == 0, ts(Tn) == N,
           z3.ForAll([t, k], z3.Implies(z3.And(0 <= t, t < Tn), Cn(t, k) == Hf(k, ts(t + 1)) - Hf(k, ts(t))), patterns=[Cn(t, k)]),
           E(0, 0) == 0,
           z3.ForAll([k, t], z3.Implies(z3.And(0 <= t, t < Tn, k >= 0), E(k, t + 1) == E(k, t) + Cn(t, k)), patterns=[E(k, t + 1)]),
           z3.ForAll([k], z3.Implies(k >= 0, E(k + 1, 0) == E(k, Tn)), patterns=[E(k + 1, 0)])]
    hyp = base + [ax['G_split'], ax['G_zero']] + blk
    kk = z3.Int('kk')
    inner = lambda tt: E(kk, tt) == Gf(kk, N) + Hf(kk, ts(tt))      # noqa: E731
    run.lemma('lemma.prefix_link.inner.base', hyp + [kk >= 0, E(kk, 0) == Gf(kk, N)], inner(z3.IntVal(0)))
    run.lemma('lemma.prefix_link.inner.step', hyp + [kk >= 0, 0 <= b, b < Tn, inner(b)], inner(b + 1))
    run.lemma('lemma.prefix_link.outer.base', hyp, E(0, 0) == Gf(0, N))
    run.lemma('lemma.prefix_link.outer.step', hyp + [kk >= 0, inner(Tn)], E(kk + 1, 0) == Gf(kk + 1, N))


def ghosts(g):
    eng, entry = g.eng, g.entry
    pos = g.arr_term('pos')
    coord = g.arg('coord')
    NP = eng.tosv(g.arg('npartition')).t
    box = eng.toreal(eng.tosv(g.arg('boxsize'))).t
    N = g.arg('pos').shape[0]
    KEY = g.define('KEYD', ['int'], 'int', lambda q: SV(z3.If(z3.ToInt(z3.Select(z3.Select(pos, q.t), coord) * (R(NP) / box)) < NP - 1,
                                                                z3.ToInt(z3.Select(z3.Select(pos, q.t), coord) * (R(NP) / box)), NP - 1), 'int'))
    # KEY is the uninterpreted symbol the lemmas talk about; KEYD its definition
    q = z3.Int('kq')
    g.axiom(z3.ForAll([q], KEYf(q) == KEY(q), patterns=[KEYf(q)]))
    for f in recurrences(N, NP):
        g.axiom(f)
    ax = lemma_axioms(N, NP)
    for nm, f in ax.items():
        if nm != 'keys_ok':
            g.axiom(f)
    g.fn('KEY', lambda x: SV(KEYf(z3.simplify(eng.tosv(x).t)), 'int'))
    g.fn('KEYD', g.eng.ghost['KEYD'])
    g.fn('H', lambda a, b: SV(Hf(z3.simplify(eng.tosv(a).t), z3.simplify(eng.tosv(b).t)), 'int'))
    g.fn('G', lambda a, b: SV(Gf(z3.simplify(eng.tosv(a).t), z3.simplify(eng.tosv(b).t)), 'int'))
    g.fn('DEST', lambda x: SV(Gf(KEYf(z3.simplify(eng.tosv(x).t)), N) + Hf(KEYf(z3.simplify(eng.tosv(x).t)), z3.simplify(eng.tosv(x).t)), 'int'))
    g.unfolder('H', lambda a, b: [z3.Implies(b.t >= 0, Hf(a.t, b.t + 1) == Hf(a.t, b.t) + z3.If(KEYf(b.t) == a.t, 1, 0))])


BLOCK = ['pointers = np.empty(nthread * npartition, dtype=np.int64)', 'pointers[0] = 0', 'pointers[1:] = np.cumsum(counts.T)[:-1]',
         'pointers = np.ascontiguousarray(pointers.reshape(npartition, nthread).T)']


def block_apply(eng, st):
    """assumed contract of the numpy idiom (cumsum of the transposed histogram, shifted by one, reshaped and transposed):
    pointers[t, k] = exclusive prefix sum of counts in (k, t)-lexicographic order.  With the pass-1 postcondition
    counts[t, k] = H(k, tstart[t+1]) - H(k, tstart[t]) and lemma prefix_link this is G(k, N) + H(k, tstart[t])."""
    T = I(st.env['nthread'])
    NP = I(st.env['npartition'])
    N = st.env['pos'].shape[0]
    counts, tstart = st.env['counts'], st.env['tstart']
    # the closed form needs the histogram postcondition: an obligation here, not an assumption
    goal = eng.spec_bool('forall((tt, k), 0 <= tt and tt < nthread and 0 <= k and k < npartition, '
                         'counts[tt, k] == H(k, tstart[tt + 1]) - H(k, tstart[tt]))', st)
    eng.oblige(st, 'block_pre', goal, None, label='histogram postcondition before the prefix-sum block')
    p = eng.new_array(st, 'pointers', [T, NP], 'int', DT('int', 'int64', 64, True))
    st.env['pointers'] = p
    st.pc.append(eng.spec_bool('forall((tt, k), 0 <= tt and tt < nthread and 0 <= k and k < npartition, '
                               'pointers[tt, k] == G(k, len(pos)) + H(k, tstart[tt]))', st))


INV_KEYS = 'forall(q, 0, {upto}, keys[q] == KEY(q) and 0 <= keys[q] and keys[q] < npartition)'
ROWS_DONE = ('forall((tt, k), 0 <= tt and tt < t and 0 <= k and k < npartition, '
             'counts[tt, k] == H(k, tstart[tt + 1]) - H(k, tstart[tt]))')
ROWS_ZERO = 'forall((tt, k), {lo} <= tt and tt < nthread and 0 <= k and k < npartition, counts[tt, k] == 0)'
TS = ['0 <= t and t <= nthread', 'forall(u, 0, nthread, 0 <= tstart[u] and tstart[u] <= tstart[u + 1] and tstart[u + 1] <= len(pos))']


def placed(upto, weights):
    cl = [f'forall(q, 0, {upto}, psort[DEST(q), {c}] == pos[q, {c}])' for c in range(3)]
    if weights:
        cl.append(f'forall(q, 0, {upto}, wsort[DEST(q)] == weights[q])')
    return cl


def spec(weights, coord):
    N = 'len(pos)'
    req = ['nthread >= 1', 'npartition >= 1', 'npartition < 2147483648', f'{N} < 2147483648', 'boxsize > 0',
           f'forall(q, 0, {N}, 0 <= pos[q, {coord}] and pos[q, {coord}] <= boxsize)']
    if weights:
        req.append(f'len(weights) == {N}')
    ens = [f'forall(k, 0, npartition, result[1][k] == G(k, {N}))', f'result[1][npartition] == {N}', 'len(result[1]) == npartition + 1',
           'result[1][0] == 0', 'forall(k, 0, npartition, result[1][k] <= result[1][k + 1])',
           f'len(result[0]) == {N}'] + [f'forall(q, 0, {N}, result[0][DEST(q), {c}] == pos[q, {c}])' for c in range(3)]
    if weights:
        ens += [f'forall(q, 0, {N}, result[2][DEST(q)] == weights[q])', f'len(result[2]) == {N}']
    else:
        ens += ['result[2] is None']
    p1 = 2 if weights else 6       # loop ordinals of the scatter pass taken for this configuration
    ptr_outer = ('forall((tt, k), 0 <= tt and tt < nthread and 0 <= k and k < npartition, '
                 f'pointers[tt, k] == G(k, {N}) + H(k, ite(tt < t, tstart[tt + 1], tstart[tt])))')
    ptr_inner = ('forall((tt, k), 0 <= tt and tt < nthread and 0 <= k and k < npartition, '
                 f'pointers[tt, k] == G(k, {N}) + H(k, ite(tt < t, tstart[tt + 1], ite(tt == t, i, tstart[tt]))))')
    dest_hints = ['mention KEYD(i)', 'unfold H(keys[i], i)',
                  f'H(KEY(i), i + 1) <= H(KEY(i), {N})', f'G(KEY(i), {N}) + H(KEY(i), {N}) == G(KEY(i) + 1, {N})',
                  f'G(KEY(i) + 1, {N}) <= G(npartition, {N})', f'0 <= DEST(i) and DEST(i) < {N}']
    inj = 'forall_intro forall((q,), 0 <= q and q < i, DEST(q) != DEST(i)) at_terms i'
    wr2 = dict(psort=('r,c', 'exists(q, tstart[t], tstart[t + 1], DEST(q) == r)'), pointers=('tt,k', 'tt == t'))
    if weights:
        wr2['wsort'] = ('r', 'exists(q, tstart[t], tstart[t + 1], DEST(q) == r)')
    loops = {
        0: LoopSpec(invariant=TS + [INV_KEYS.format(upto='tstart[t]'), ROWS_DONE, ROWS_ZERO.format(lo='t')],
                    writes=dict(keys=('q', 'tstart[t] <= q and q < tstart[t + 1]'), counts=('tt,k', 'tt == t'))),
        1: LoopSpec(invariant=TS + ['t < nthread', 'tstart[t] <= i and i <= tstart[t + 1]', INV_KEYS.format(upto='i'), ROWS_DONE,
                                    ROWS_ZERO.format(lo='t + 1'),
                                    'forall(k, 0, npartition, counts[t, k] == H(k, i) - H(k, tstart[t]))'],
                    body_asserts={'keys[i] = ': ['mention KEYD(i)', f'pos[i, {coord}] >= 0 and pos[i, {coord}] <= boxsize']},
                    asserts=['keys[i - 1] == KEY(i - 1)']),
        p1: LoopSpec(invariant=TS + [INV_KEYS.format(upto=N), ptr_outer] + placed('tstart[t]', weights), writes=wr2),
        p1 + 1: LoopSpec(invariant=TS + ['t < nthread', 'tstart[t] <= i and i <= tstart[t + 1]', INV_KEYS.format(upto=N), ptr_inner] +
                         placed('i', weights),
                         body_asserts={'k = keys[i]': dest_hints + [inj]}),
    }
    return FnSpec(TSC, 'partition_parallel', prop='C17', auto_skolem=True, name=f'partition_parallel[weights={weights},coord={coord}]',
                  args=dict(pos='real[:,3]!ro', npartition='int', boxsize='real', weights='real[:]!ro' if weights else None,
                            coord=coord, nthread='int', sort=False),
                  ghosts=ghosts, requires=req, ensures=ens, frame=[], check_fits=True,
                  blocks=[dict(stmts=BLOCK, apply=block_apply, note='np.cumsum(counts.T) shifted, reshaped (npartition, nthread) and transposed = exclusive prefix sums in (stripe, thread) order')],
                  hints={'starts = np.empty': []}, loops=loops,
                  post_hints=[f'forall(k, 0, npartition + 1, G(k, {N}) <= G(k + 1, {N}))'] if False else [])


# ------------------------------------------------------------------ independent oracle + bounded / replay
def allowed_keys(x, npart, box, tol=10 ** 9):
    """stripe(s) a coordinate may be assigned to: floor(x*np/box) clamped; a value within 1e-9 of a stripe edge may go
    to either side (float rounding of the product is outside the real-arithmetic model)"""
    import fractions
    f = fractions.Fraction(float(x)) * npart / fractions.Fraction(float(box))
    k = int(f // 1)
    ks = {min(max(k, 0), npart - 1)}
    if abs(f - round(f)) < fractions.Fraction(1, tol) * max(1, npart):
        ks |= {min(max(int(round(f)) - 1, 0), npart - 1), min(max(int(round(f)), 0), npart - 1)}
    return ks


def judge(pos, npart, box, coord, weights, nthread, dtype=np.float64):
    """checks the property clauses directly on the output (independent of how keys are computed inside)"""
    from abacusnbody.analysis.tsc import partition_parallel
    P = np.asarray(pos, dtype=dtype).reshape(-1, 3)
    W = None if weights is None else np.asarray(weights, dtype=dtype)
    P0, W0 = P.copy(), None if W is None else W.copy()
    try:
        ps, starts, ws = partition_parallel(P, npart, dtype(box), weights=W, coord=coord, nthread=nthread)
    except (IndexError, SystemError) as ex:       # bounds check inside a parallel kernel surfaces as SystemError
        return f'out-of-bounds access: {ex}'
    N = len(P0)
    if not np.array_equal(P, P0) or (W is not None and not np.array_equal(W, W0)):
        return 'input modified'
    starts = [int(x) for x in starts]
    if len(starts) != npart + 1 or starts[0] != 0 or starts[-1] != N or any(a > b for a, b in zip(starts, starts[1:])):
        return f'start offsets {starts} are not non-decreasing from 0 to {N}'
    if ps.shape != P0.shape:
        return 'output shape differs'
    index = {}
    for q in range(N):
        index.setdefault(tuple(P0[q].tolist()), []).append(q)
    used = set()
    for s in range(npart):
        last = -1
        for r in range(starts[s], starts[s + 1]):
            cand = [q for q in index.get(tuple(ps[r].tolist()), []) if q not in used]
            if not cand:
                return f'output row {r} {ps[r].tolist()} is not an (unused) input particle: not a permutation'
            q = cand[0]
            used.add(q)
            tol = 10 ** 9 if dtype == np.float64 else 10 ** 5
            if s not in allowed_keys(float(P0[q, coord]), npart, float(dtype(box)), tol):
                return f'particle {q} with x={float(P0[q, coord])!r} placed in stripe {s}, expected {sorted(allowed_keys(float(P0[q, coord]), npart, float(dtype(box))))}'
            if q < last:
                return f'stripe {s} is not in input order (stable): particle {q} after {last}'
            last = q
            if W is not None and ws[r] != W0[q]:
                return f'weight of particle {q} not moved with its position'
    if W is None and ws is not None:
        return 'weights returned although none given'
    return None


def cases(seed, n):
    rnd = random.Random(seed)
    out = []
    for _ in range(n):
        N = rnd.choice([0, 1, 2, 3, 5, 8, 13, 40])
        npart = rnd.choice([1, 2, 3, 4, 7, 16])
        box = rnd.choice([1.0, 2000.0, 123.0])
        edges = [k * box / npart for k in range(npart + 1)]
        xs = [rnd.choice(edges + [box, 0.0, box * (1 - 1e-12)] + [rnd.uniform(0, box) for _ in range(4)]) for _ in range(N)]
        pos = [[rnd.uniform(0, box) * (1 + q * 1e-3) % box, rnd.uniform(0, box), rnd.uniform(0, box)] for q in range(N)]
        coord = rnd.randrange(3)
        for q, x in enumerate(xs):
            pos[q][coord] = x
        out.append((pos, npart, box, coord, [rnd.random() for _ in range(N)]))
    return out


def replayer(obl, model):
    nparts = []
    if model is not None and isinstance(model.get('npartition'), int) and 1 <= model['npartition'] <= 5000000:
        nparts.append(model['npartition'])
    # integer-width obligations only manifest beyond the narrow type's range: always try stripe counts past 2^15 and 2^16
    nparts += [40000, 70000]
    for npart in nparts:
        xs = sorted({min(max((k + 0.5) / npart, 0.0), 1.0) for k in (0, 1, npart // 2, 32767, 32768, 40000, npart - 2, npart - 1) if 0 <= k < npart})
        pos = [[x, 0.25 + 0.001 * q, 0.75] for q, x in enumerate(xs)]
        for nt in (1, 2):
            why = judge(pos, npart, 1.0, 0, None, nt)
            if why:
                return True, f'partition_parallel npartition={npart} x={xs} nthread={nt}: {why}'
    for pos, npart, box, coord, w in cases(5, 40):
        for nt in (1, 2, 3, 16):
            for ww in (None, w):
                why = judge(pos, npart, box, coord, ww, nt)
                if why:
                    return True, f'partition_parallel N={len(pos)} npartition={npart} box={box} coord={coord} nthread={nt} weights={ww is not None}: {why}'
    return False, 'no case reproduced'


def _sweep_worker(t):
    """every particle count 0..N for one thread count: a permutation into stable stripes (thread-chunk boundaries only misalign for
    particular (N, nthread) pairs)"""
    nt, nmax, seed = t
    import numba
    rng = np.random.default_rng(seed + nt)
    try:
        for N in range(nmax + 1):
            pos = (rng.random((N, 3)) * 0.98 + 0.01).tolist()
            w = rng.random(N).tolist()
            for npart, ww in ((3, w),):
                why = judge(pos, npart, 1.0, 0, ww, nt)
                if why:
                    return dict(pos=pos, npartition=npart, nthread=nt, weights=ww), f'N={N} nthread={nt} npartition={npart}: {why}'
    finally:
        numba.set_num_threads(numba.config.NUMBA_NUM_THREADS)
    return None


def bounded(run):
    # sweep of (particle count, thread count) pairs
    nmax = 70 if run.tier == 'quick' else 130
    res = run.pmap(_sweep_worker, [(nt, nmax, run.seed) for nt in range(1, 17)])
    for r in res:
        if r:
            run.bounded_violation('partition_parallel vs stable stripe order', r[0], r[1])
            break
    run.add_bounded('partition_parallel for every particle count and thread count', 16 * (nmax + 1), 16 * (nmax + 1),
                    f'N = 0..{nmax} x nthread = 1..16, 3 stripes, with weights: permutation, stable stripes, offsets', [dict(N=61, nthread=7)])
    nev = 0
    cs = cases(run.seed + 9, 60 if run.tier == 'quick' else 1500)
    for pos, npart, box, coord, w in cs:
        for nt in (1, 2, 5, 16):
            for ww in (None, w):
                for dt in (np.float64, np.float32):
                    why = judge(pos, npart, box, coord, ww, nt, dt)
                    nev += 1
                    if why:
                        run.bounded_violation('partition_parallel vs stable stripe order', dict(pos=pos, npartition=npart, box=box, coord=coord,
                                                                                                 nthread=nt, weights=ww, dtype=dt.__name__), why)
                        return
    # sort=True (argsort inside each stripe) is outside the proof: bounded
    from abacusnbody.analysis.tsc import partition_parallel
    for pos, npart, box, coord, w in cs[:40]:
        P = np.asarray(pos, dtype=np.float64).reshape(-1, 3)
        # without weights: stripes ordered along the chosen coordinate, a permutation of the input
        ps0, starts0, ws0 = partition_parallel(P, npart, box, weights=None, coord=coord, nthread=2, sort=True)
        nev += 1
        for s in range(npart):
            seg = ps0[starts0[s]:starts0[s + 1], coord]
            if np.any(np.diff(seg) < 0):
                run.bounded_violation('partition_parallel sort=True stripe not ordered', dict(pos=pos, npartition=npart, coord=coord, weights=None),
                                      f'unweighted, coord={coord}, stripe {s}: {seg.tolist()}')
                return
        if ws0 is not None or sorted(map(tuple, ps0.tolist())) != sorted(map(tuple, P.tolist())):
            run.bounded_violation('partition_parallel sort=True not a permutation', dict(pos=pos, npartition=npart, weights=None), 'unweighted: multiset differs')
            return
        # weights of another dtype than the positions keep their dtype and their values
        for pdt, wdt in ((np.float32, np.float64), (np.float64, np.float32), (np.float32, np.int64)):
            W = (np.arange(len(P)) * 16777217 + 3).astype(wdt) if wdt == np.int64 else (np.asarray(w, dtype=np.float64) * (1 + 2.0 ** -40)).astype(wdt)
            Pd = P.astype(pdt)
            psd, std, wsd = partition_parallel(Pd, npart, pdt(box), weights=W, coord=coord, nthread=2)
            nev += 1
            if wsd is None or wsd.dtype != W.dtype or sorted(tuple(r) + (x,) for r, x in zip(psd.tolist(), wsd.tolist())) != \
                    sorted(tuple(r) + (x,) for r, x in zip(Pd.tolist(), W.tolist())):
                run.bounded_violation('partition_parallel changes the weights', dict(pos=pos, npartition=npart, pos_dtype=np.dtype(pdt).name, weight_dtype=np.dtype(wdt).name),
                                      f'weights of dtype {np.dtype(wdt).name} with positions of dtype {np.dtype(pdt).name}: returned dtype '
                                      f'{None if wsd is None else wsd.dtype}, (position, weight) rows are not a permutation of the input')
                return
        for nt in (1, 3):
            ps, starts, ws = partition_parallel(P, npart, box, weights=np.asarray(w), coord=coord, nthread=nt, sort=True)
            nev += 1
            for s in range(npart):
                seg = ps[starts[s]:starts[s + 1], coord]
                if np.any(np.diff(seg) < 0):
                    run.bounded_violation('partition_parallel sort=True stripe not ordered', dict(pos=pos, npartition=npart), f'stripe {s}: {seg.tolist()}')
                    return
            if sorted(map(tuple, ps.tolist())) != sorted(map(tuple, P.tolist())):
                run.bounded_violation('partition_parallel sort=True not a permutation', dict(pos=pos, npartition=npart), 'multiset differs')
                return
            # the weights move with their particles (rows of (x, y, z, w) are permuted as a whole)
            rows_in = sorted(tuple(r) + (float(x),) for r, x in zip(P.tolist(), w))
            rows_out = sorted(tuple(r) + (float(x),) for r, x in zip(ps.tolist(), np.asarray(ws).tolist()))
            if rows_in != rows_out:
                run.bounded_violation('partition_parallel sort=True separates weights from their particles', dict(pos=pos, npartition=npart, nthread=nt),
                                      'the multiset of (position, weight) rows differs')
                return
    run.add_bounded('compiled partition_parallel vs exact-rational stable counting sort', nev, len(cs),
                    'N in {0,1,2,3,5,8,13,40}, npartition {1,2,3,4,7,16}, values on stripe boundaries / 0 / BoxSize, coord 0..2, threads {1,2,5,16}, weights on/off, float32/64; sort=True checked for order, permutation and position/weight pairing',
                    [dict(N=len(cs[0][0]), npartition=cs[0][1], coord=cs[0][3])])


def check(run):
    run.level = 'proof'
    prove_lemmas(run)
    for weights in (True, False):
        for coord in ((0, 1, 2) if run.tier == 'thorough' else (0, 2)):
            run.prove(spec(weights, coord), replayer)
    run.discharge()
    bounded(run)
    run.assumptions += [
        'assumed library contracts: np.linspace(0,N,T+1).astype(int64) is non-decreasing from 0 to N; the cumsum/reshape/transpose idiom yields exclusive prefix sums in (stripe, thread) order; np.empty/zeros/empty_like',
        'floats are reals: trunc(x*np/box) computed in float32/float64 vs the real floor exactly at stripe edges is not modelled',
        'sort=True (argsort within a stripe) is covered only by the bounded check',
        'L2 (an injective map of [0,N) into [0,N) is a permutation) is the trusted step from DEST injective + in range to "permutation" (Lean-checked statement in design_experiments/lemmas_L1_L2.lean)',
        'prange meta-theorem; int32 keys/counts do not overflow (N < 2^31)',
    ]


def replay_file(rec, repo):
    return replayer(None, None)[0]
