"""C09 - galaxies follow the HOD threshold rule and inherit their host (also used by C10).

Deductive part (E1, real ASTs): `wrap` maps |x| < 3L/2 into [-L/2, L/2) by a whole box; `fast_concatenate` returns a1 ++ a2 for
every Nthread >= 1 with every index written by exactly one iteration (C10).  The two-pass kernels gen_cent / gen_sats (box and light-cone observer) are
under the functional contracts of contracts/hodk.py (stacked markers -> CODE, row RK(c, q) of tracer c carries host q); the gen_gals
assembly and floating point are checked by the bounded stand-in below (run-time evaluation of the contract
written from the property statement).

Run-time contract: for fixed tables and their stored uniform randoms a host carries tracer T iff its random falls in T's slice
of [0,1] (slices stacked LRG, ELG, QSO; widths = the package's mean-occupation functions at the documented arguments x
incompleteness x multiplicity / particle weight; ELG satellite slope/M1 switched by the host's central); output = hosts with
code T in host order, centrals then satellites, carrying host id / mass, host (particle) position, the velocity-bias
formulas and, with RSD, only z moved by v_z / velz2kms wrapped into [-L/2, L/2).
"""
import itertools
import math
import random

import numpy as np
import z3

from pyvc.engine import FnSpec, LoopSpec, CalleeSpec, SV, Arr, DT

HOD = 'abacusnbody/hod/GRAND_HOD.py'


# ------------------------------------------------------------------ E1 pieces
def spec_wrap():
    return FnSpec(HOD, 'wrap', prop='C09', name='wrap', args=dict(x='real', L='real'),
                  requires=['L > 0', '-3 * L / 2 <= x and x < 3 * L / 2'],
                  ensures=['-L / 2 <= result and result < L / 2', 'result == x or result == x - L or result == x + L'])


def wrap_replayer(obl, model):
    """the real wrap() on the model's (x, L) when they are exactly representable, and on a battery of face / near-face values"""
    from fractions import Fraction
    from abacusnbody.hod.GRAND_HOD import wrap
    f = getattr(wrap, 'py_func', wrap)
    cands = []
    if model:
        try:
            x, L = Fraction(str(model.get('x'))), Fraction(str(model.get('L')))
            if float(x) == x and float(L) == L:
                cands.append((float(x), float(L)))
        except (ValueError, TypeError, ZeroDivisionError):
            pass
    for L in (1000.0, 2.0, 7.5, 0.25):
        for x in (L / 2, -L / 2, 0.0, L, -L, 3 * L / 4, -3 * L / 4, 1.25 * L, -1.5 * L, L / 2 + L / 1024, -L / 2 - L / 1024):
            cands.append((x, L))
    for x, L in cands:
        if not (L > 0 and -1.5 * L <= x < 1.5 * L):
            continue
        r = f(x, L)
        if not (-L / 2 <= r < L / 2) or r not in (x, x - L, x + L):
            return True, f'wrap({x}, {L}) = {r}: outside [-L/2, L/2) or not a whole-box shift'
    return False, 'no case reproduced'


def spec_concat(mode):
    """mode: 'serial' (Nthread == 1) or 'parallel' (Nthread >= 2)"""
    req = ['len(array1) >= 1', 'len(array2) >= 1', 'Nthread == 1' if mode == 'serial' else 'Nthread >= 2']
    N1, N2 = 'len(array1)', 'len(array2)'
    ens = [f'len(result) == {N1} + {N2}', f'forall(q, 0, {N1}, result[q] == array1[q])', f'forall(q, 0, {N2}, result[{N1} + q] == array2[q])']
    done1 = f'forall(q, 0, hstart1[ite(tid < Nthread1, tid, Nthread1)], final_array[q] == array1[q])'
    done2 = f'forall(q, N1, hstart2[ite(tid < Nthread1, 0, tid - Nthread1)], final_array[q] == array2[q - N1])'
    split = ['1 <= Nthread1 and Nthread1 <= Nthread - 1', 'Nthread2 == Nthread - Nthread1',
             'forall(u, 0, Nthread2 + 1, N1 <= hstart2[u] and hstart2[u] <= N1 + N2)', 'hstart2[0] == N1 and hstart2[Nthread2] == N1 + N2',
             'forall((u, v), 0 <= u and u <= v and v <= Nthread2, hstart2[u] <= hstart2[v])']
    fp = ('q', 'ite(tid < Nthread1, hstart1[tid] <= q and q < hstart1[tid + 1], '
               'hstart2[tid - Nthread1] <= q and q < hstart2[tid + 1 - Nthread1])')
    loops = {
        0: LoopSpec(invariant=['forall(q, 0, i, final_array[q] == array1[q])']),
        1: LoopSpec(invariant=['forall(q, 0, N1, final_array[q] == array1[q])', 'forall(q, 0, j, final_array[q + N1] == array2[q])']),
        2: LoopSpec(invariant=['0 <= tid and tid <= Nthread'] + split + [done1, done2], writes=dict(final_array=fp)),
        3: LoopSpec(invariant=['tid < Nthread1', 'hstart1[tid] <= i and i <= hstart1[tid + 1]'] + split +
                    ['forall(q, 0, i, final_array[q] == array1[q])', 'forall(q, N1, hstart2[0], final_array[q] == array2[q - N1])']),
        4: LoopSpec(invariant=['tid >= Nthread1 and tid < Nthread', 'hstart2[tid - Nthread1] <= i and i <= hstart2[tid + 1 - Nthread1]'] + split +
                    ['forall(q, 0, N1, final_array[q] == array1[q])', 'forall(q, N1, i, final_array[q] == array2[q - N1])']),
    }
    return FnSpec(HOD, 'fast_concatenate', prop='C09', name=f'fast_concatenate[{mode}]',
                  args=dict(array1='real[:]!ro', array2='real[:]!ro', Nthread='int'), requires=req, ensures=ens, frame=[], loops=loops,
                  hints={'hstart1 = ': ['Nthread * N1 < Nthread * (N1 + N2)', '1 <= Nthread1 and Nthread1 <= Nthread - 1']})


COLS = ('x', 'y', 'z', 'vx', 'vy', 'vz', 'mass')
CONCAT_CALLEE = None


def spec_assembly(tracers):
    """the tail of gen_gals that glues centrals and satellites (slice from `HOD_dict_sat = ...` to `return HOD_dict`), under the
    contract of fast_concatenate (proved above for every Nthread >= 1 and all lengths): for every requested tracer and column, the
    output is the central column followed by the satellite column, Ncent = number of centrals, id = central ids then satellite ids.
    Element types are abstracted to reals (only positions matter here)."""
    from pyvc.engine import CalleeSpec
    callee = CalleeSpec(['array1', 'array2', 'Nthread'], requires=['Nthread >= 1'],
                        ensures=['len(result) == len(array1) + len(array2)', 'forall(q, 0, len(array1), result[q] == array1[q])',
                                 'forall(q, 0, len(array2), result[len(array1) + q] == array2[q])'], result='arr:real[:]')
    args = dict(tracers={t: None for t in tracers}, Nthread='int', verbose=False)
    for t in ('LRG', 'ELG', 'QSO'):
        for part in ('cent', 'sat'):
            args[f'{t}_dict_{part}'] = {c: 'real[:]!ro' for c in COLS}
    args['ID_dict_cent'] = {t: 'real[:]!ro' for t in ('LRG', 'ELG', 'QSO')}
    args['ID_dict_sat'] = {t: 'real[:]!ro' for t in ('LRG', 'ELG', 'QSO')}
    ens = [f'len(result) == {len(tracers)}']
    for t in tracers:
        ens.append(f'result["{t}"]["Ncent"] == len({t}_dict_cent["x"])')
        ens.append(f'len(result["{t}"]) == {len(COLS) + 2}')
        for c in COLS + ('id',):
            cen = f'{t}_dict_cent["{c}"]' if c != 'id' else f'ID_dict_cent["{t}"]'
            sat = f'{t}_dict_sat["{c}"]' if c != 'id' else f'ID_dict_sat["{t}"]'
            ens += [f'len(result["{t}"]["{c}"]) == len({cen}) + len({sat})',
                    f'forall(q, 0, len({cen}), result["{t}"]["{c}"][q] == {cen}[q])',
                    f'forall(q, 0, len({sat}), result["{t}"]["{c}"][len({cen}) + q] == {sat}[q])']
    return FnSpec(HOD, 'gen_gals', prop='C09', name='gen_gals.assembly[' + '+'.join(tracers) + ']', args=args, requires=['Nthread >= 1'], ensures=ens,
                  slice=('HOD_dict_sat = ', 'return HOD_dict'), callees={'fast_concatenate': callee})


def spec_concat_empty(which):
    req = ['len(array1) == 0' if which == 1 else 'len(array1) >= 1', 'len(array2) == 0' if which == 2 else 'len(array2) >= 0', 'Nthread >= 1']
    other = 'array2' if which == 1 else 'array1'
    return FnSpec(HOD, 'fast_concatenate', prop='C09', name=f'fast_concatenate[array{which} empty]',
                  args=dict(array1='real[:]!ro', array2='real[:]!ro', Nthread='int'), requires=req,
                  ensures=[f'len(result) == len({other})', f'forall(q, 0, len({other}), result[q] == {other}[q])'], frame=[])


# ------------------------------------------------------------------ sequential reference (from the property statement)
def occupation():
    from abacusnbody.hod import GRAND_HOD as G
    f = lambda g: getattr(g, 'py_func', g)       # noqa: E731
    return dict(cL=f(G.n_cen_LRG), cE=f(G.N_cen_ELG_v1), cQ=f(G.N_cen_QSO), sL=f(G.n_sat_LRG_modified), sE=f(G.N_sat_elg), sG=f(G.N_sat_generic),
                phi=f(G.phi_fun), Phi=f(G.Phi_fun))


def wrap_ref(x, L):
    while x >= L / 2:
        x -= L
    while x < -L / 2:
        x += L
    return x


def reference(hd, pd, tracers, params, rsd, enable_ranks):
    """returns {tracer: dict(columns..., Ncent)} built host by host"""
    occ = occupation()
    import abacusnbody.hod.GRAND_HOD as G
    # N_cen_ELG_v1 calls jitted helpers: evaluate through the compiled versions (they are "the package's functions")
    cE = G.N_cen_ELG_v1
    inv = 1.0 / params['velz2kms']
    L = params['Lbox']
    H = len(hd['hmass'])
    T = {k: dict(v) for k, v in tracers.items()}
    g = lambda d, k, dflt=0.0: d.get(k, dflt)       # noqa: E731
    out = {t: {c: [] for c in ('x', 'y', 'z', 'vx', 'vy', 'vz', 'mass', 'id')} for t in tracers}
    code_c = np.zeros(H, dtype=int)
    dc, fe, sh = hd.get('hdeltac', np.zeros(H)), hd.get('hfenv', np.zeros(H)), hd.get('hshear', np.zeros(H))

    def emit(t, pos, v, mass, gid):
        z = pos[2]
        if rsd:
            z = wrap_ref(pos[2] + v[2] * inv, L)
        o = out[t]
        o['x'].append(pos[0]); o['y'].append(pos[1]); o['z'].append(z)           # noqa: E702
        o['vx'].append(v[0]); o['vy'].append(v[1]); o['vz'].append(v[2])         # noqa: E702
        o['mass'].append(mass); o['id'].append(gid)                               # noqa: E702
    for i in range(H):
        m = float(hd['hmass'][i])
        edges = []
        tot = 0.0
        if 'LRG' in T:
            h = T['LRG']
            tot += float(G.n_cen_LRG(m, h['logM_cut'] + g(h, 'Acent') * dc[i] + g(h, 'Bcent') * fe[i], h['sigma'])) * g(h, 'ic', 1.0) * hd['hmultis'][i]
        edges.append(tot)
        if 'ELG' in T:
            h = T['ELG']
            tot += float(cE(m, h['p_max'], h['Q'], h['logM_cut'] + g(h, 'Acent') * dc[i] + g(h, 'Bcent') * fe[i] + g(h, 'Ccent') * sh[i], h['sigma'], h['gamma'])) \
                * g(h, 'ic', 1.0) * hd['hmultis'][i]
        edges.append(tot)
        if 'QSO' in T:
            h = T['QSO']
            tot += float(G.N_cen_QSO(m, h['logM_cut'] + g(h, 'Acent') * dc[i] + g(h, 'Bcent') * fe[i], h['sigma'])) * g(h, 'ic', 1.0) * hd['hmultis'][i]
        edges.append(tot)
        r = float(hd['hrandoms'][i])
        c = 1 if r < edges[0] else 2 if r < edges[1] else 3 if r < edges[2] else 0
        if any(abs(r - e) < 1e-12 for e in edges):
            return None                   # exact tie: unconstrained by the property; the caller redraws
        code_c[i] = c
        if c:
            t = ('LRG', 'ELG', 'QSO')[c - 1]
            a = T[t]['alpha_c']
            v = [float(hd['hvel'][i][k]) + a * float(hd['hveldev'][i][k]) for k in range(3)]
            emit(t, [float(x) for x in hd['hpos'][i]], v, m, int(hd['hid'][i]))
    ncent = {t: len(out[t]['x']) for t in tracers}
    P = len(pd['phmass'])
    pdc, pfe, psh = pd.get('pdeltac', np.zeros(P)), pd.get('pfenv', np.zeros(P)), pd.get('pshear', np.zeros(P))
    for i in range(P):
        m = float(pd['phmass'][i])
        w = float(pd['pweights'][i])
        host_code = code_c[int(pd['pinds'][i])]
        edges = []
        tot = 0.0

        def deco(h):
            if not enable_ranks:
                return 1.0
            return 1 + g(h, 's') * pd['pranks'][i] + g(h, 's_v') * pd['pranksv'][i] + g(h, 's_p') * pd['pranksp'][i] + g(h, 's_r') * pd['pranksr'][i]
        if 'LRG' in T:
            h = T['LRG']
            lc = h['logM_cut'] + g(h, 'Acent') * pdc[i] + g(h, 'Bcent') * pfe[i]
            M1 = 10 ** (h['logM1'] + g(h, 'Asat') * pdc[i] + g(h, 'Bsat') * pfe[i])
            tot += float(G.n_sat_LRG_modified(m, lc, 10 ** lc, M1, h['sigma'], h['alpha'], h['kappa'])) * w * g(h, 'ic', 1.0) * deco(h)
        edges.append(tot)
        if 'ELG' in T:
            h = T['ELG']
            lc = h['logM_cut'] + g(h, 'Acent') * pdc[i] + g(h, 'Bcent') * pfe[i] + g(h, 'Ccent') * psh[i]
            logM1, alpha = h['logM1'], h['alpha']
            M1 = 10 ** (logM1 + g(h, 'Asat') * pdc[i] + g(h, 'Bsat') * pfe[i] + g(h, 'Csat') * psh[i])
            if host_code == 1:           # conformity: host has an LRG central
                M1 = 10 ** (h.get('logM1_EL', logM1) + g(h, 'Asat') * pdc[i] + g(h, 'Bsat') * pfe[i])
                alpha = h.get('alpha_EL', h['alpha'])
            elif host_code == 2:         # host has an ELG central
                M1 = 10 ** (h.get('logM1_EE', logM1) + g(h, 'Asat') * pdc[i] + g(h, 'Bsat') * pfe[i])
                alpha = h.get('alpha_EE', h['alpha'])
            tot += float(G.N_sat_elg(m, 10 ** lc, h['kappa'], M1, alpha, h['A_s'])) * w * g(h, 'ic', 1.0) * deco(h)
        edges.append(tot)
        if 'QSO' in T:
            h = T['QSO']
            lc = h['logM_cut'] + g(h, 'Acent') * pdc[i] + g(h, 'Bcent') * pfe[i]
            M1 = 10 ** (h['logM1'] + g(h, 'Asat') * pdc[i] + g(h, 'Bsat') * pfe[i])
            tot += float(G.N_sat_generic(m, 10 ** lc, h['kappa'], M1, h['alpha'])) * w * g(h, 'ic', 1.0) * deco(h)
        edges.append(tot)
        r = float(pd['prandoms'][i])
        if any(abs(r - e) < 1e-12 for e in edges):
            return None
        c = 1 if r < edges[0] else 2 if r < edges[1] else 3 if r < edges[2] else 0
        if c:
            t = ('LRG', 'ELG', 'QSO')[c - 1]
            a = T[t]['alpha_s']
            hv = [float(x) for x in pd['phvel'][i]]
            v = [hv[k] + a * (float(pd['pvel'][i][k]) - hv[k]) for k in range(3)]
            emit(t, [float(x) for x in pd['ppos'][i]], v, m, int(pd['phid'][i]))
    for t in tracers:
        out[t]['Ncent'] = ncent[t]
    return out


LRG = dict(logM_cut=12.3, logM1=13.4, sigma=0.4, alpha=1.1, kappa=0.3, alpha_c=0.2, alpha_s=0.9, s=0.1, s_v=-0.2, s_p=0.05, s_r=0.0,
           Acent=0.1, Asat=-0.2, Bcent=0.15, Bsat=0.1, ic=0.9)
ELG = dict(p_max=0.4, Q=100.0, logM_cut=11.7, kappa=0.5, sigma=0.3, logM1=12.6, alpha=0.9, gamma=1.5, A_s=1.3, alpha_c=0.1, alpha_s=1.1,
           s=0.0, s_v=0.1, s_p=0.0, s_r=0.2, Acent=-0.1, Asat=0.2, Bcent=0.0, Bsat=-0.1, Ccent=0.3, Csat=0.1, ic=0.8,
           logM1_EE=12.2, alpha_EE=0.6, logM1_EL=12.9, alpha_EL=1.4)
QSO = dict(logM_cut=12.0, kappa=0.4, sigma=0.5, logM1=13.0, alpha=1.0, alpha_c=0.3, alpha_s=0.7, s=0.05, s_v=0.0, s_p=0.1, s_r=0.0,
           Acent=0.0, Asat=0.1, Bcent=-0.1, Bsat=0.0, ic=0.7)


def tables(seed, H, ppart):
    rng = np.random.default_rng(seed)
    hd = dict(hpos=rng.uniform(-50, 50, (H, 3)), hvel=rng.normal(0, 300, (H, 3)), hmass=10 ** rng.uniform(11.3, 14.5, H),
              hid=np.arange(H, dtype=np.int64) * 7 + 3, hmultis=rng.choice([1.0, 1.0, 2.0, 0.5], H), hrandoms=rng.random(H),
              hveldev=rng.normal(0, 100, (H, 3)), hdeltac=rng.uniform(-0.5, 0.5, H), hfenv=rng.uniform(-0.5, 0.5, H), hshear=rng.uniform(-0.5, 0.5, H),
              hsigma3d=rng.random(H), hc=rng.random(H), hrvir=rng.random(H))
    if H:
        hd['hrandoms'][rng.integers(0, H, max(1, H // 6))] *= 0.01       # make galaxies likely
    P = H * ppart
    pinds = np.sort(rng.integers(0, max(H, 1), P)) if H else np.zeros(0, dtype=np.int64)
    pd = dict(ppos=rng.uniform(-50, 50, (P, 3)), pvel=rng.normal(0, 400, (P, 3)), phvel=hd['hvel'][pinds] if P else np.zeros((0, 3)),
              phmass=hd['hmass'][pinds] if P else np.zeros(0), phid=hd['hid'][pinds] if P else np.zeros(0, dtype=np.int64),
              pweights=rng.uniform(0.2, 3.0, P), prandoms=rng.random(P) * rng.choice([1.0, 0.05, 0.3], P), pinds=pinds,
              pdeltac=hd['hdeltac'][pinds] if P else np.zeros(0), pfenv=hd['hfenv'][pinds] if P else np.zeros(0), pshear=hd['hshear'][pinds] if P else np.zeros(0),
              pranks=rng.uniform(-1, 1, P), pranksv=rng.uniform(-1, 1, P), pranksp=rng.uniform(-1, 1, P), pranksr=rng.uniform(-1, 1, P), pranksc=rng.uniform(-1, 1, P))
    return hd, pd


def run_package(hd, pd, tracers, params, rsd, enable_ranks, nthread):
    from abacusnbody.hod import GRAND_HOD as G
    import numba
    try:
        res = G.gen_gals({k: v.copy() for k, v in hd.items()}, {k: v.copy() for k, v in pd.items()}, {t: dict(v) for t, v in tracers.items()},
                         dict(params), nthread, enable_ranks, rsd, False, False)
    finally:
        numba.set_num_threads(numba.config.NUMBA_NUM_THREADS)
    return res


def compare(res, ref, tracers, tag):
    for t in tracers:
        got, want = res[t], ref[t]
        if int(got['Ncent']) != want['Ncent']:
            return f'{tag} {t}: Ncent {int(got["Ncent"])} expected {want["Ncent"]}'
        for c in ('x', 'y', 'z', 'vx', 'vy', 'vz', 'mass', 'id'):
            a, b = np.asarray(got[c], dtype=np.float64), np.asarray(want[c], dtype=np.float64)
            if a.shape != b.shape:
                return f'{tag} {t}: column {c} has {len(a)} rows, expected {len(b)} ({want["Ncent"]} centrals + satellites)'
            if len(a) and not np.allclose(a, b, rtol=1e-9, atol=1e-9):
                k = int(np.argmax(np.abs(a - b)))
                return f'{tag} {t}: column {c} row {k} ({"central" if k < want["Ncent"] else "satellite"}) is {a[k]!r}, expected {b[k]!r}'
    return None


def configs(tier):
    out = []
    for trs in (('LRG',), ('ELG',), ('LRG', 'ELG'), ('LRG', 'ELG', 'QSO'), ('QSO',), ('ELG', 'QSO')):
        for rsd in (True, False):
            out.append((trs, rsd, len(trs) == 3 or trs == ('ELG',)))
    return out


def judge(seed, H, ppart, trs, rsd, ranks, threads):
    full = dict(LRG=LRG, ELG=ELG, QSO=QSO)
    tracers = {t: dict(full[t]) for t in trs}
    params = dict(z=0.5, velz2kms=31.7, Lbox=100.0, Mpart=2.1e9, origin=None)      # |z + v_z/velz2kms| stays below 3L/2 (single wrap suffices)
    for attempt in range(5):
        hd, pd = tables(seed + 1000 * attempt, H, ppart)
        ref = reference(hd, pd, tracers, params, rsd, ranks)
        if ref is not None:
            break
    else:
        return None
    base = None
    for nt in threads:
        try:
            res = run_package(hd, pd, tracers, params, rsd, ranks, nt)
        except (IndexError, SystemError) as ex:
            return f'H={H} tracers={trs} Nthread={nt}: out-of-bounds access {ex!r}'
        why = compare(res, ref, trs, f'H={H} particles={len(pd["phid"])} tracers={list(trs)} rsd={rsd} ranks={ranks} Nthread={nt}:')
        if why:
            return why
        snap = {t: {c: np.asarray(res[t][c]).copy() for c in ('x', 'y', 'z', 'vx', 'vy', 'vz', 'mass', 'id')} for t in trs}
        if base is None:
            base = snap
        else:
            for t in trs:
                for c, v in snap[t].items():
                    if not np.array_equal(v, base[t][c]):
                        return f'H={H} tracers={list(trs)}: column {c} of {t} with Nthread={nt} is not bitwise identical to Nthread={threads[0]}'
    return None


def _bworker(t):
    try:
        return judge(*t)
    except Exception as ex:      # noqa  no catalogue produced for a valid input (e.g. an empty particle table) breaks the property too
        import traceback
        tb = traceback.format_exc().strip().splitlines()
        return f'hosts={t[1]} particles_per_host={t[2]} tracers={list(t[3])}: gen_gals raised {ex!r} ({tb[-3].strip() if len(tb) > 2 else ""})'


def bounded(run, prop):
    threads = (1, 2, 3, 7, 16)
    sizes = [(0, 2), (1, 3), (2, 2), (5, 4), (17, 3), (61, 2)] if run.tier == 'quick' else [(0, 2), (1, 3), (2, 2), (3, 1), (5, 4), (15, 3), (17, 3), (61, 2), (123, 2), (200, 1)]
    tasks = []
    for k, ((trs, rsd, ranks), (H, pp)) in enumerate(itertools.product(configs(run.tier), sizes)):
        tasks.append((run.seed + k, H, pp, trs, rsd, ranks, threads))
    res = run.pmap(_bworker, tasks)
    for t, why in zip(tasks, res):
        if why:
            run.bounded_violation('catalogue differs from the threshold rule / thread-count independence',
                                  dict(seed=t[0], hosts=t[1], particles_per_host=t[2], tracers=list(t[3]), rsd=t[4], ranks=t[5]), why)
            break
    run.add_bounded('real gen_gals vs sequential reference built from the property statement; every thread count bitwise equal', len(tasks) * len(threads), len(tasks),
                    'tracer subsets {LRG, ELG, LRG+ELG, all, QSO, ELG+QSO} x RSD on/off x ranks on/off x host tables of 0/1/2/5/17/61 hosts (more in thorough) x threads 1,2,3,7,16; assembly-bias, conformity (alpha_EE != alpha_EL), velocity-bias parameters all non-default',
                    [dict(hosts=17, particles=51, tracers=['LRG', 'ELG', 'QSO'], rsd=True)])


def check(run):
    run.level = 'other'
    run.prove(spec_wrap(), wrap_replayer)
    for m in ('serial', 'parallel'):
        run.prove(spec_concat(m))
    for w in (1, 2):
        run.prove(spec_concat_empty(w))
    for w in itertools.product((True, False), repeat=3):
        if any(w):
            run.prove(spec_assembly(tuple(t for t, on in zip(('LRG', 'ELG', 'QSO'), w) if on)))
    from contracts import hodk
    hodk.prove_kernels(run, 'C09', run.tier)
    run.discharge()
    bounded(run, 'C09')
    run.extra['explanation'] = ('wrap, fast_concatenate and the two-pass kernels gen_cent / gen_sats (box and light-cone observer; tracer subsets x RSD x ranks; see contracts/hodk.py) proved by the E1 engine '
                                'on the real ASTs, and the assembly tail of gen_gals (centrals then satellites per column, Ncent, ids) under the fast_concatenate contract; the call sites of the two kernels inside gen_gals and floating point are covered by the bounded stand-in '
                                '(run-time contract evaluation against a sequential reference), not proved')
    run.assumptions += ['occupation functions are "the package\'s mean-occupation functions": the reference calls the same compiled functions at the arguments the statement names',
                        'exact ties (random == slice edge) are unconstrained and avoided by redrawing', 'gen_sats_nfw (random draws) is outside the statement',
                        'floats as reals in the E1 pieces; np.linspace/rint/astype contract assumed',
                        'gen_cent / gen_sats: occupation functions n_cen_LRG / N_cen_ELG_v1 / N_cen_QSO / n_sat_LRG_modified / N_sat_elg / N_sat_generic and 10**x are named uninterpreted functions (their callee contract is "result == F(args)"); '
                        'Nout[:, c, 0].cumsum() block contract assumed (running sums); the tie comparison (<= or <) is read from the source because the property leaves ties free; '
                        'randoms > 0 is a precondition (a random of exactly 0 with a disabled first tracer is the zero-width-slice corner)']


def replay_file(rec, repo):
    w = rec.get('witness', {})
    if 'hosts' in w:
        return bool(judge(w['seed'], w['hosts'], w['particles_per_host'], tuple(w['tracers']), w['rsd'], w['ranks'], (1, 2, 3, 7, 16)))
    return False
