"""C14 - Blosc block decompression is independent of how the stream is chunked.

* PROVED (E1, contracts/C14d.py): the real BloscCompressor.decompress against a contract whose postcondition does not mention the
  chunking: for every well-formed frame stream and EVERY tiling into read chunks (any number, lengths >= 0), blosc.decompress_ptr is
  called exactly once per frame, in order, with that frame's payload bytes and destination out + (sum of earlier return values), and
  the sum is returned.  `_buffer` changes kind (None / array) between iterations: each loop head is verified once per kind.
* BOUNDED: the same contract evaluated at run time around the REAL class for an exhaustive enumeration of all chunkings of small
  streams (cross-check of the encoding, and the source of concrete failing inputs), and the compress -> re-chunk -> decompress round
  trip (`compress` is a generator over a third-party codec: outside the engine).
"""
import itertools
import random
import struct
import sys

import numpy as np


class RecordingBlosc:
    """stands in for the blosc module inside abacusnbody.data.asdf: records every decompress_ptr call"""
    SHUFFLE, BITSHUFFLE, NOSHUFFLE = 1, 2, 0

    def __init__(self, base):
        self.calls = []
        self.base = base

    def decompress_ptr(self, buf, address, **kw):
        b = bytes(buf)
        self.calls.append((b, address - self.base))
        return 3 + b[0] % 5          # bytes "decompressed" by this frame: any positive function of the frame

    def set_nthreads(self, n):
        return 1

    def set_blocksize(self, n):
        pass


def expected(frames):
    calls, off = [], 0
    for p in frames:
        calls.append((p, off))
        off += 3 + p[0] % 5
    return calls, off


def run_decompress(stream, cuts, zero_at=()):
    """cuts: sorted cut positions inside the stream; zero_at: chunk indices before which an empty chunk is inserted"""
    import abacusnbody.data.asdf as A
    out = np.zeros(64, dtype=np.uint8)
    base = out.ctypes.data
    fake = RecordingBlosc(base)
    saved = A.blosc
    A.blosc = fake
    try:
        pos = [0] + list(cuts) + [len(stream)]
        chunks = []
        for k in range(len(pos) - 1):
            if k in zero_at:
                chunks.append(b'')
            chunks.append(stream[pos[k]:pos[k + 1]])
        try:
            n = A.BloscCompressor().decompress(iter(chunks), memoryview(out))
        except Exception as ex:          # noqa
            return 'raised', repr(ex), [len(c) for c in chunks]
        return 'ok', (fake.calls, n), [len(c) for c in chunks]
    finally:
        A.blosc = saved


def frames_to_stream(frames):
    return b''.join(struct.pack('!I', len(p)) + p for p in frames)


def frame_sets(max_len):
    """all tuples of frame payload sizes whose stream (4 + size per frame) is at most max_len bytes"""
    out = []
    for k in (1, 2, 3):
        for sizes in itertools.product(range(1, max_len), repeat=k):
            if sum(4 + s for s in sizes) <= max_len:
                out.append(sizes)
    return out


def judge_stream(sizes, seed, exhaustive=True, nrand=0):
    rnd = random.Random(seed)
    frames = [bytes(rnd.randrange(1, 256) for _ in range(s)) for s in sizes]
    stream = frames_to_stream(frames)
    want = expected(frames)
    L = len(stream)
    n = 0
    positions = list(range(1, L))
    if exhaustive:
        cutsets = (c for r in range(0, L) for c in itertools.combinations(positions, r))
    else:
        cutsets = (tuple(sorted(rnd.sample(positions, rnd.randrange(0, L)))) for _ in range(nrand))
    for cuts in cutsets:
        zero_at = ()
        if n % 7 == 3:
            zero_at = (rnd.randrange(0, len(cuts) + 1),)
        st, got, chunks = run_decompress(stream, cuts, zero_at)
        n += 1
        if st != 'ok':
            return n, f'frames {list(sizes)} chunk lengths {chunks}: {got}'
        if (got[0], got[1]) != want:
            return n, (f'frames {list(sizes)} chunk lengths {chunks}: decompress_ptr calls {[(len(b), o) for b, o in got[0]]} '
                       f'returned {got[1]}, expected {[(len(b), o) for b, o in want[0]]} returned {want[1]}')
    return n, None


def roundtrip_cases(tier):
    out = []
    for itemsize, dt in ((1, np.uint8), (2, np.int16), (4, np.float32), (8, np.float64)):
        for n in (0, 1, 2, 7, 64, 65, 257):
            for cbs in (itemsize, 2 * itemsize, 3 * itemsize + 1 if itemsize > 1 else 3, 16, 64, 1 << 22):
                if cbs < itemsize:
                    continue
                out.append((dt, n, cbs))
    return out


def judge_roundtrip(dt, n, cbs, seed):
    sys.modules.setdefault('blosc', __import__('blosc'))
    import abacusnbody.data.asdf as A
    rnd = np.random.default_rng(seed)
    arr = (rnd.integers(0, 255, n * np.dtype(dt).itemsize, dtype=np.uint8)).view(dt)
    frames = list(A.BloscCompressor().compress(memoryview(arr), compression_block_size=cbs))
    stream = b''.join(bytes(f) for f in frames)
    # frames must tile the input in order with at most cbs bytes each
    out = np.zeros(arr.nbytes + 8, dtype=np.uint8)
    r = random.Random(seed)
    L = len(stream)
    for trial in range(4):
        cuts = sorted(set(r.randrange(1, L) for _ in range(r.randrange(0, 6)))) if L > 1 else []
        pos = [0] + cuts + [L]
        chunks = [stream[a:b] for a, b in zip(pos, pos[1:])]
        out[:] = 0xEE
        nb = A.BloscCompressor().decompress(iter(chunks), memoryview(out)[:arr.nbytes] if arr.nbytes else memoryview(out)[:0])
        if nb != arr.nbytes:
            return f'dtype {np.dtype(dt).name} n={n} compression_block_size={cbs}: decompress returned {nb} bytes, expected {arr.nbytes}'
        if bytes(out[:arr.nbytes]) != arr.tobytes():
            return f'dtype {np.dtype(dt).name} n={n} compression_block_size={cbs}: round trip differs'
        if bytes(out[arr.nbytes:]) != b'\xee' * 8:
            return f'dtype {np.dtype(dt).name} n={n} compression_block_size={cbs}: wrote past the output'
    return None


def _stream_worker(t):
    return judge_stream(t[0], t[1], exhaustive=True)


def replayer(o, model):
    """a failed obligation of the state machine: search the small-stream battery for a concrete chunking that misbehaves"""
    k = 0
    for sizes in frame_sets(13):
        n, why = judge_stream(sizes, k, exhaustive=True)
        k += 1
        if why:
            return True, why
    return False, None


def check(run):
    run.level = 'other'
    from contracts import C14d
    C14d.lemmas(run)
    run.prove(C14d.spec_decompress(), replayer)
    run.discharge()
    max_len = 16 if run.tier == "quick" else 19
    nev, ncfg = 0, 0
    samples = []
    bad = None
    fsets = frame_sets(max_len)
    res = run.pmap(_stream_worker, [(sizes, run.seed + k) for k, sizes in enumerate(fsets)])
    for sizes, (n, why) in zip(fsets, res):
        nev += n
        ncfg += 1
        if len(samples) < 3:
            samples.append(dict(frame_payload_sizes=list(sizes), chunkings=n))
        if why and not bad:
            bad = (dict(frames=list(sizes)), why)
    # longer streams (up to 6 frames, payloads up to 40 bytes): seeded random chunkings incl. byte-wise feeding
    rnd = random.Random(run.seed)
    if not bad:
        for _ in range(40 if run.tier == 'quick' else 400):
            sizes = tuple(rnd.randrange(1, 40) for _ in range(rnd.randrange(1, 7)))
            n, why = judge_stream(sizes, rnd.randrange(10 ** 6), exhaustive=False, nrand=30)
            nev += n
            ncfg += 1
            if why:
                bad = (dict(frames=list(sizes)), why)
                break
        for sizes in ((1,), (3, 2), (5, 1, 4)):
            frames = [bytes([7] * s) for s in sizes]
            stream = frames_to_stream(frames)
            st, got, chunks = run_decompress(stream, tuple(range(1, len(stream))))          # one byte at a time
            nev += 1
            if st != 'ok' or (got[0], got[1]) != expected(frames):
                bad = (dict(frames=list(sizes), chunking='bytewise'), f'bytewise feeding of frames {sizes}: {got}')
    if bad:
        run.bounded_violation('decompress depends on the chunking', bad[0], bad[1])
    run.add_bounded('every chunking of every small frame stream through the real BloscCompressor.decompress (recording blosc)', nev, ncfg,
                    f'ALL cut sets (2^(L-1)) of every stream of 1-3 frames with total length <= {max_len} bytes, an empty chunk inserted in every 7th case; plus seeded random chunkings of streams up to 6 frames x 40 bytes and bytewise feeding',
                    samples, exhaustive=False)
    # compress / decompress round trip with the zlib-based stand-in for blosc
    n2 = 0
    for dt, n, cbs in roundtrip_cases(run.tier):
        try:
            why = judge_roundtrip(dt, n, cbs, run.seed + n2)
        except Exception as ex:      # noqa  a round trip that raises (e.g. a frame handed to the codec mid-payload) breaks the identity too
            why = f'dtype {np.dtype(dt).name} n={n} compression_block_size={cbs}: round trip raised {ex!r}'
        n2 += 1
        if why:
            run.bounded_violation('compress/decompress round trip', dict(dtype=np.dtype(dt).name, n=n, compression_block_size=cbs), why)
            break
    run.add_bounded('compress -> re-chunk -> decompress round trip', n2, n2,
                    'item sizes 1/2/4/8 x array lengths {0,1,2,7,64,65,257} x compression block sizes from one item to 4 MiB; 4 random re-chunkings each',
                    [dict(dtype='float32', n=65, compression_block_size=13)])
    run.notes.append('compress (generator over the third-party codec) and the round trip are bounded only; decompress is proved (contracts/C14d.py)')
    run.assumptions += ['python-blosc is absent offline: decompress_ptr is a recording stand-in (call sequence) or a zlib stand-in (round trip)',
                        'frame sizes > 0 (a zero length prefix is indistinguishable from "no length yet" in the code)',
                        'proof: bytes / memoryview / numpy byte buffers modelled as arrays of raw byte values (frombuffer, memoryview, cast, toreadonly are views of the same bytes); '
                        'struct.unpack("!I") = big-endian value of exactly 4 bytes; python integers unbounded; blosc.decompress_ptr under the call-log contract; '
                        'no extra keyword arguments; buffers contiguous; the stream ends on a frame boundary']
    run.extra['explanation'] = ('decompress proved for every stream and every chunking (E1 engine, real AST, loop invariants per structural kind of _buffer); '
                                'compress and the round trip bounded; the exhaustive small-stream battery cross-checks the encoding')


def replay_file(rec, repo):
    w = rec.get('witness', {})
    if 'frames' in w:
        n, why = judge_stream(tuple(w['frames']), 0, exhaustive=sum(4 + s for s in w['frames']) <= 15, nrand=200)
        return bool(why)
    return False
