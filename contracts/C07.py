"""C07 - parallel TSC equals serial TSC under every thread schedule.

Decomposition (DESIGN 6/C07):
 (a) tsc_parallel's configuration logic (slice of the real function): every accepted configuration with more than one
     thread and more than one stripe has an even number of stripes of width >= 3 cells; the default choice is accepted.
 (b) geometry lemma (reals/ints, about the same spline spec A used in the C06 contract): with stripe width >= 3 cells,
     a uniform sub-cell offset in [0, 1/2] and the periodic wrap, two particles from distinct stripes of equal parity
     never deposit into a common grid row.
 (c) _tsc_parallel: phase 1 iteration i handles stripe 2i, phase 2 stripe 2i+1, slices are in bounds; the write footprint
     of an iteration (from the callee contract of _tsc_scatter: only rows reached by its own particles) is disjoint from
     every other iteration's by (b)  ->  prange rule  ->  any interleaving equals the sequential loop, whose result is the
     serial deposit by additivity (C06 postcondition).
"""
import itertools
import random

import numpy as np
import z3

from pyvc.engine import FnSpec, LoopSpec, CalleeSpec, SV, Arr, St, DT
from contracts import C06

TSC = 'abacusnbody/analysis/tsc.py'
R = z3.ToReal
HALF = z3.RealVal('1/2')


# ------------------------------------------------------------------ (a) configuration logic
def spec_config(user_np, coord):
    args = dict(densgrid='real[:,:,:]', coord=coord, nthread='int', npartition='int' if user_np else None, verbose=False)
    return FnSpec(TSC, 'tsc_parallel', prop='C07', name=f'tsc_parallel.config[npartition={"user" if user_np else "default"},coord={coord}]',
                  args=args, slice=('n1d = ', '<def _check_dtype'),
                  requires=['nthread >= 1', f'densgrid.shape[{coord}] >= 1'] + (['npartition >= 0'] if user_np else []),
                  ensures=[f'implies(nthread > 1 and npartition > 1, npartition % 2 == 0 and 3 * npartition <= densgrid.shape[{coord}])',     # width >= 3 cells ALONG THE PARTITION AXIS
                           'npartition >= 0'],
                  allow_raise=['ValueError'] if user_np else [])


# ------------------------------------------------------------------ (b) geometry lemma
def round_he(x):
    f = z3.ToInt(x + HALF)
    return z3.If(z3.And(R(f) == x + HALF, f % 2 != 0), f - 1, f)


def reach(p, r, g):
    """grid row r (0 <= r < g) receives a non-zero TSC deposit from a particle at grid coordinate p: r is congruent
    to one of floor(p)-1 .. floor(p)+2 with |cell - p| < 3/2 (support of the spline used in the C06 contract)"""
    f = z3.ToInt(p)
    return z3.Or(*[z3.And(C06.cong(f + j, r, g), C06.K_tsc(R(f + j) - p) != 0) for j in (-1, 0, 1, 2)])


def geometry_lemma(run):
    g = z3.Int('g')
    w, o, a, a2, p, p2 = z3.Reals('w o a a2 p p2')
    r = z3.Int('r')
    # stripes [a, a+w) and [a2, a2+w) in grid units (a = s*w, a2 = s2*w with s2 >= s+2, both inside [0, g]);
    # the last stripe is closed above (x = BoxSize after wrapping); the deposit uses p + o with the same offset o
    # same parity in an even number of stripes: at least one whole stripe lies between them on BOTH sides of the ring
    base = [g >= 3, w >= 3, 0 <= o, o <= HALF, a >= 0, a2 >= a + 2 * w, a2 + w <= R(g), a2 + 2 * w <= a + R(g), 0 <= r, r < g]
    inside = [p >= a, p < a + w, p2 >= a2, p2 <= a2 + w]
    run.lemma('lemma.stripes_of_equal_parity_share_no_row', base + inside, z3.Not(z3.And(reach(p + o, r, g), reach(p2 + o, r, g))))
    # tightness (vacuity guard): with width 2 the statement is refutable
    run.refutable('canary.width2_stripes_do_share_a_row',
                  [g >= 3, w == 2, 0 <= o, o <= HALF, a >= 0, a2 >= a + 2 * w, a2 + w <= R(g), a2 + 2 * w <= a + R(g), 0 <= r, r < g] + inside,
                  z3.Not(z3.And(reach(p + o, r, g), reach(p2 + o, r, g))))
    # the code's rounding trick touches exactly rows round(p)-1..round(p)+1, all of which are among the candidates
    # floor(p)-1..floor(p)+2 (ties included): links the footprint used in (c) to reach()
    q = z3.Real('q')
    run.lemma('lemma.rounded_cells_are_candidates', [q >= 0], z3.And(round_he(q) - 1 >= z3.ToInt(q) - 1, round_he(q) + 1 <= z3.ToInt(q) + 2))


# ------------------------------------------------------------------ (c) _tsc_parallel: bounds, phases, footprints
def ghosts_par(g):
    eng, entry = g.eng, g.entry
    STRIPE = z3.Function('STRIPE', z3.IntSort(), z3.IntSort())          # stripe (partition key) of particle n of ppart
    REACHN = z3.Function('REACHN', z3.IntSort(), z3.IntSort(), z3.BoolSort())   # particle n deposits into grid row r
    g.fn('STRIPE', lambda n: SV(STRIPE(eng.tosv(n).t), 'int'))
    g.fn('REACHN', lambda n, r: SV(REACHN(eng.tosv(n).t, eng.tosv(r).t), 'bool'))

    def REACH(arr, m, r):
        # particle m of a *view* of ppart is particle (view offset + m) of ppart
        if not isinstance(arr, Arr):
            raise Exception('REACH expects an array view')
        off = arr.axes[0][1]
        return SV(REACHN(z3.simplify(off + eng.tosv(m).t), eng.tosv(r).t), 'bool')
    g.fn('REACH', REACH)
    n1, n2, r = z3.Ints('gn1 gn2 gr')
    # geometry (lemma (b) + accepted configuration (a) + partition postcondition C17): particles of distinct stripes of
    # equal parity share no row
    g.axiom(z3.ForAll([n1, n2, r], z3.Implies(z3.And(STRIPE(n1) != STRIPE(n2), (STRIPE(n1) - STRIPE(n2)) % 2 == 0),
                                              z3.Not(z3.And(REACHN(n1, r), REACHN(n2, r)))),
                      patterns=[z3.MultiPattern(REACHN(n1, r), REACHN(n2, r))]))


SCATTER_REQ = ['boxsize > 0', 'density.shape[0] >= 2', 'density.shape[1] >= 2', 'density.shape[2] >= 1',
               'density.shape[0] < 32766 and density.shape[1] < 32766 and density.shape[2] < 32766',
               'implies(weights is not None, len(weights) >= len(positions))',
               'forall(q, 0, len(positions), 0 <= positions[q, 0] and positions[q, 0] <= boxsize and 0 <= positions[q, 1] and '
               'positions[q, 1] <= boxsize and 0 <= positions[q, 2] and positions[q, 2] <= boxsize)',
               'offset >= 0'] + [f'offset * density.shape[{a}] <= boxsize / 2' for a in range(3)]
SCATTER_CALLEE = CalleeSpec(['positions', 'density', 'boxsize', 'weights', 'offset'], requires=SCATTER_REQ,
                            frame=dict(density=('r,c,z', 'exists(m, 0, len(positions), REACH(positions, m, r))')),
                            defaults=dict(weights=None, offset=0.0))


def spec_parallel(weights):
    req = ['len(starts) >= 2', 'starts[0] == 0', 'starts[len(starts) - 1] == len(ppart)',
           'forall(s, 0, len(starts) - 1, starts[s] <= starts[s + 1])',
           'forall(s, 0, len(starts), 0 <= starts[s] and starts[s] <= len(ppart))',
           # partition postcondition (C17): slice s holds exactly the particles of stripe s
           'forall((s, q), 0 <= s and s < len(starts) - 1 and starts[s] <= q and q < starts[s + 1], STRIPE(q) == s)',
           'box > 0', 'dens.shape[0] >= 2', 'dens.shape[1] >= 2', 'dens.shape[2] >= 1',
           'dens.shape[0] < 32766 and dens.shape[1] < 32766 and dens.shape[2] < 32766',
           'forall(q, 0, len(ppart), 0 <= ppart[q, 0] and ppart[q, 0] <= box and 0 <= ppart[q, 1] and ppart[q, 1] <= box and '
           '0 <= ppart[q, 2] and ppart[q, 2] <= box)',
           'offset >= 0'] + [f'offset * dens.shape[{a}] <= box / 2' for a in range(3)]
    if weights:
        req.append('len(weights) >= len(ppart)')
    fp = lambda k: dict(dens=('r,c,z', f'exists(m, starts[2 * i + {k}], starts[2 * i + {k} + 1], REACHN(m, r))'))   # noqa: E731
    return FnSpec(TSC, '_tsc_parallel', prop='C07', name=f'_tsc_parallel[weights={weights}]',
                  args=dict(ppart='real[:,3]!ro', starts='int[:]!ro', dens='real[:,:,:]', box='real',
                            weights='real[:]!ro' if weights else None, offset='real'),
                  ghosts=ghosts_par, requires=req, callees={'_tsc_scatter': SCATTER_CALLEE}, frame=['dens'],
                  loops={0: LoopSpec(invariant=[], writes=fp(0)), 1: LoopSpec(invariant=[], writes=fp(1))})


def spec_tail(partitioned, weights, coord):
    """the call sites after validation: partition_parallel / _tsc_parallel receive the validated nthread, npartition, coord and
    the same box; the stripes built by the partition are the ones deposited"""
    part = CalleeSpec(['pos', 'npartition', 'boxsize', 'weights', 'coord', 'nthread', 'sort'],
                      requires=['nthread == ghost_nthread', 'npartition == ghost_npartition', f'coord == {coord}', 'boxsize == ghost_box',
                                'implies(ghost_weights, weights is not None)', 'implies(not ghost_weights, weights is None)'],
                      ensures=['len(result[1]) == npartition + 1', 'len(result[0]) == len(pos)'],
                      result='tuple:arr:real[:,3];arr:int[:];' + ('arr:real[:]' if weights else 'none'),
                      defaults=dict(weights=None, coord=0, nthread=-1, sort=False))
    dep = CalleeSpec(['ppart', 'starts', 'dens', 'box', 'weights', 'offset'],
                     requires=['box == ghost_box', 'offset == ghost_offset', 'len(starts) == ' + ('ghost_npartition + 1' if partitioned else '2'),
                               'implies(ghost_weights, weights is not None)', 'implies(not ghost_weights, weights is None)'],
                     frame=dict(dens=None))
    req = ['ghost_nthread == nthread', 'ghost_box == box', 'ghost_offset == offset', 'nthread >= 1',
           'ghost_npartition == npartition', 'npartition > 1' if partitioned else 'npartition <= 1']
    return FnSpec(TSC, 'tsc_parallel', prop='C07', name=f'tsc_parallel.calls[partitioned={partitioned},weights={weights},coord={coord}]',
                  args=dict(pos='real[:,3]', densgrid='real[:,:,:]', box='real', weights='real[:]' if weights else None, nthread='int',
                            npartition='int', sort=False, coord=coord, verbose=False, offset='real', ghost_nthread='int', ghost_box='real',
                            ghost_offset='real', ghost_npartition='int', ghost_weights=weights),
                  slice=('if npartition > 1:', '_tsc_parallel(ppart'), requires=req, ignore=[r'\w*time (\+|-)?= ', r'if verbose'],
                  callees={'partition_parallel': part, '_tsc_parallel': dep})


def phase_lemma(run):
    """phase 1 (i < (np+1)//2, stripe 2i) and phase 2 (i < np//2, stripe 2i+1) visit every stripe 0..np-1 exactly once"""
    np_, s, i = z3.Ints('np s i')
    run.lemma('lemma.phases_cover_every_stripe_once', [np_ >= 1, 0 <= s, s < np_],
              z3.Or(z3.And(s % 2 == 0, s / 2 < (np_ + 1) / 2), z3.And(s % 2 == 1, (s - 1) / 2 < np_ / 2)))
    run.lemma('lemma.phase_stripes_in_range', [np_ >= 1, i >= 0],
              z3.And(z3.Implies(i < (np_ + 1) / 2, 2 * i < np_), z3.Implies(i < np_ / 2, 2 * i + 1 < np_)))


# ------------------------------------------------------------------ replay: deterministic stripe-row overlap
def rows_touched(pos, n1d, box, offset, coord):
    from abacusnbody.analysis.tsc import _tsc_scatter
    shape = [4, 4, 4]
    shape[coord] = n1d
    d = np.zeros(shape, dtype=np.float64)
    _tsc_scatter.py_func(np.asarray(pos, dtype=np.float64).reshape(-1, 3), d, box, weights=None, offset=offset)
    other = tuple(a for a in range(3) if a != coord)
    return set(np.nonzero(d.sum(axis=other) != 0)[0].tolist())


def accepted_npartition(n1d, nthread, npartition, coord=0):
    """what the real tsc_parallel does with this configuration: ('rejected', msg) or ('accepted', npartition used)"""
    import abacusnbody.analysis.tsc as T
    seen = {}
    orig_pp, orig_tp = T.partition_parallel, T._tsc_parallel

    def fake_pp(pos, npart, box, **kw):
        seen['np'] = npart
        return pos, np.array([0, len(pos)], dtype=np.int64), kw.get('weights')
    T.partition_parallel = fake_pp
    T._tsc_parallel = lambda *a, **k: None
    try:
        shape = [48, 48, 48]            # anisotropic: the other axes are long, the partition axis has n1d cells
        shape[coord] = n1d
        T.tsc_parallel(np.zeros((1, 3), dtype=np.float32), np.zeros(shape, dtype=np.float32), 1.0, nthread=nthread,
                       npartition=npartition, coord=coord, wrap=False)
    except ValueError as ex:
        return 'rejected', str(ex)
    finally:
        T.partition_parallel, T._tsc_parallel = orig_pp, orig_tp
    return 'accepted', seen.get('np', 1)


def overlap(n1d, npart, coord=0, offsets=(0.0, 0.5)):
    """rows written by two distinct stripes of equal parity (deterministic: one private grid per stripe)"""
    box = 1.0
    for off_cells in offsets:
        off = off_cells * box / n1d
        rows = []
        for s in range(npart):
            lo, hi = s * box / npart, (s + 1) * box / npart
            xs = [lo, lo + 1e-9, (lo + hi) / 2, hi - 1e-9] + [lo + (hi - lo) * k / 16 for k in range(16)]
            if s == npart - 1:
                xs.append(box)
            pos = np.full((len(xs), 3), 0.3)
            pos[:, coord] = xs
            rows.append(rows_touched(pos, n1d, box, off, coord))
        for s, t in itertools.combinations(range(npart), 2):
            if (t - s) % 2 == 0 and rows[s] & rows[t]:
                return f'stripes {s} and {t} (processed concurrently) both write rows {sorted(rows[s] & rows[t])} (n1d={n1d}, npartition={npart}, offset={off_cells} cell)'
    return None


def replay_config(obl, model):
    cases = []
    if model is not None:
        n1d = int(model.get('len_densgrid_0', model.get('len_densgrid_1', model.get('len_densgrid_2', 8))) or 8)
        nt = int(model.get('nthread', 2) or 2)
        npn = model.get('npartition')
        if 3 <= n1d <= 64 and 1 <= nt <= 16:
            cases.append((n1d, nt, None if npn is None else int(npn)))
    else:
        for n1d in (6, 8, 9, 10, 12, 16, 20):
            for nt in (2, 3, 4, 16):
                cases.append((n1d, nt, None))
                for npn in (2, 3, 4, 5, 6, 8):
                    cases.append((n1d, nt, npn))
    for n1d, nt, npn in cases:
        if npn is not None and npn > n1d:
            continue
        for coord in (1, 0):
            st, v = accepted_npartition(n1d, nt, npn, coord)
            if st == 'accepted' and nt > 1 and v > 1 and v % 2 == 0:
                why = overlap(n1d, v, coord=coord)
                if why:
                    return True, f'grid axis {coord} with {n1d} cells (other axes 48), nthread={nt}, npartition={npn} -> used {v}: {why}'
        st, v = accepted_npartition(n1d, nt, npn)
        if st == 'rejected':
            if npn is None:
                return True, f'default configuration rejected: n1d={n1d} nthread={nt}: {v}'
            continue
        if nt > 1 and v > 1:
            if v % 2:
                return True, f'odd npartition {v} accepted with nthread={nt} (n1d={n1d})'
            why = overlap(n1d, v)
            if why:
                return True, f'n1d={n1d} nthread={nt} npartition={npn} -> used {v}: {why}'
    return False, 'no case reproduced'


def replay_parallel(obl, model):
    """_tsc_parallel.py_func on small partitioned inputs (interpreted: out-of-range indices raise)"""
    from abacusnbody.analysis.tsc import _tsc_parallel
    rnd = random.Random(1)
    for npart in (1, 2, 3, 4, 5, 6):
        n = 12
        pos = np.sort(np.array([rnd.random() for _ in range(n)]))
        P = np.stack([pos, np.full(n, 0.5), np.full(n, 0.5)], axis=1)
        starts = np.searchsorted(pos, np.arange(npart + 1) / npart).astype(np.int64)
        starts[0], starts[-1] = 0, n
        for w in (None, np.ones(n)):
            d = np.zeros((3 * max(npart, 1) + 3, 4, 4))
            try:
                _tsc_parallel.py_func(P, starts, d, 1.0, w, 0.0)
            except (IndexError, SystemError) as ex:       # bounds check inside a parallel kernel surfaces as SystemError
                return True, f'_tsc_parallel npartition={npart} starts={starts.tolist()}: out-of-bounds access {ex}'
            if abs(d.sum() - n) > 1e-9:
                return True, f'_tsc_parallel npartition={npart}: deposited {d.sum()} of {n} particles'
    return False, 'no case reproduced'


def _e2e_worker(t):
    seed, nt, npn, sort, wts = t
    import numba
    from abacusnbody.analysis import tsc
    rng = np.random.default_rng(seed)
    box, shape, N = 7.5, (24, 8, 6), 400
    pos = rng.random((N, 3)) * box
    out = rng.random(N) < 0.25
    pos[out, 0] += rng.choice([-box, box], size=int(out.sum()))          # periodic images left and right of the domain
    pos[0] = (box * (1 - 1e-9), 0.0, box / 2)
    w = (rng.random(N) + 0.5) if wts else None
    wrapped = pos % box
    want = C06.ref_paint(wrapped, shape, box, weights=w)
    rec = {}
    real = tsc._tsc_parallel

    def recorder(ppart, starts, dens, bx, weights=None, offset=0.0):
        rec['ppart'], rec['starts'] = np.array(ppart, dtype=np.float64), np.array(starts)
        return real(ppart, starts, dens, bx, weights=weights, offset=offset)
    tsc._tsc_parallel = recorder
    try:
        d = np.zeros(shape, dtype=np.float64)
        import warnings
        with warnings.catch_warnings():
            warnings.simplefilter('ignore')
            tsc.tsc_parallel(pos.copy(), d, box, weights=None if w is None else w.copy(), nthread=nt, npartition=npn, sort=sort)
    except Exception as ex:      # noqa
        return f'tsc_parallel raised {ex!r}'
    finally:
        tsc._tsc_parallel = real
        numba.set_num_threads(numba.config.NUMBA_NUM_THREADS)
    if 'starts' in rec and len(rec['starts']) > 2:
        st, pp = rec['starts'], rec['ppart']
        nparts = len(st) - 1
        width = box / nparts
        for s_ in range(nparts):
            x = pp[st[s_]:st[s_ + 1], 0]
            lo, hi = s_ * width, (s_ + 1) * width
            bad = (x < lo - 1e-9) | (x > hi + 1e-9)
            if bad.any():
                return (f'particle with x = {float(x[bad][0])!r} handed to the kernel in stripe {s_} = [{lo}, {hi}] '
                        f'(nthread={nt}, npartition={nparts}): concurrent stripes may then share grid rows')
    if not np.allclose(d, want, rtol=1e-9, atol=1e-9):
        k = np.unravel_index(np.argmax(np.abs(d - want)), shape)
        return f'grid differs from the direct spline evaluation at cell {tuple(int(x) for x in k)}: {d[k]} vs {want[k]} (total {d.sum()} vs {want.sum()})'
    return None


def check(run):
    run.level = 'proof'
    geometry_lemma(run)
    for coord in (0, 1, 2):
        for user in (False, True):
            run.prove(spec_config(user, coord), replay_config)
    phase_lemma(run)
    for w in (True, False):
        run.prove(spec_parallel(w), replay_parallel)
        for partitioned in (True, False):
            for coord in (0, 1):
                run.prove(spec_tail(partitioned, w, coord), replay_config)
    run.discharge()
    # (runs first: the fork pool must start before the parent initialises numba's threading layer)
    # end-to-end: what tsc_parallel hands to the kernel (recorded) and the painted grid, for particles outside the domain (wrap),
    # weights and sort=True/False: every particle handed over in stripe s lies in stripe s's interval (so the geometry lemma applies
    # to what actually runs), and the grid equals the direct spline evaluation of the wrapped, weighted particles
    tasks = [(run.seed + k, nt, npn, sort, wts) for k, (nt, npn, sort, wts) in enumerate(itertools.product((2, 3, 8), (None, 4), (False, True), (False, True)))]
    # a single thread accepts any stripe count, odd ones included: every stripe must still be deposited
    tasks += [(run.seed + 100 + k, 1, npn, False, wts) for k, (npn, wts) in enumerate(itertools.product((1, 2, 3, 5, 7, 8), (False, True)))]
    res = run.pmap(_e2e_worker, tasks)
    for t, why in zip(tasks, res):
        if why:
            run.bounded_violation('tsc_parallel differs from the serial deposit / hands particles to the wrong stripe',
                                  dict(seed=t[0], nthread=t[1], npartition=t[2], sort=t[3], weights=t[4]), why)
            break
    run.add_bounded('real tsc_parallel end to end: recorded kernel hand-off + grid vs direct spline evaluation', len(tasks), len(tasks),
                    '24 x 8 x 6 grid, 400 particles of which a quarter outside [0, box) (periodic images), nthread {2,3,8} x npartition {default, 4} x sort x weights; nthread 1 x npartition {1,2,3,5,7,8} x weights',
                    [dict(nthread=3, npartition=4, sort=True, weights=True)])
    # bounded: deterministic overlap check of every accepted small configuration
    n = 0
    bad = None
    samples = []
    for n1d in range(3, 26 if run.tier == 'quick' else 64):
        for nt in (1, 2, 3, 5, 8, 16):
            for npn in [None] + list(range(1, n1d + 1)):
                coord = (n1d + nt) % 3           # the partition axis varies; the other axes have 3 cells (anisotropic grid)
                st, v = accepted_npartition(n1d, nt, npn, coord)
                n += 1
                if st == 'accepted' and nt > 1 and v > 1 and bad is None:
                    if len(samples) < 3:
                        samples.append(dict(n1d=n1d, nthread=nt, npartition=npn, used=v))
                    why = overlap(n1d, v, coord=coord, offsets=(0.5,)) if v % 2 == 0 else f'odd npartition {v} accepted'
                    if why:
                        bad = (dict(n1d=n1d, nthread=nt, npartition=npn), why)
                if st == 'rejected' and npn is None and bad is None:
                    bad = (dict(n1d=n1d, nthread=nt, npartition=None), 'default configuration rejected: ' + v)
    if bad:
        run.bounded_violation('accepted configuration lets two concurrent stripes share a grid row', bad[0], bad[1])
    run.add_bounded('every (n1d, nthread, npartition) of small size through the real tsc_parallel + per-stripe private grids', n, n,
                    'n1d 3..25 (63 thorough) x nthread {1,2,3,5,8,16} x npartition {default, 1..n1d}; rows written by each stripe via _tsc_scatter.py_func, offset 1/2 cell',
                    samples, exhaustive=False)
    run.assumptions += [
        'floats are reals: (x+offset)*g/box rounding up to an exact half cell while trunc(x*np/box) stays in the lower stripe is not modelled (tight at width 3)',
        'prange meta-theorem: data-race-free independent iterations commute; numba/LLVM add no stores outside the program footprint',
    ]


def replay_file(rec, repo):
    return replay_config(None, rec.get('model'))[0] or replay_config(None, None)[0]
