"""C18 - every eigenvector code decodes to a distinct orthonormal triad.

* proved (z3): the integer decomposition code -> (cap, it, ir, iaz) used by _unpack_euler16 is a bijection between
  [0, 65340) and 12 x {(it, ir): 0 <= it < 11, 0 <= ir <= 2 it} x 45, with every sub-index in range (floor(sqrt) axiomatised);
* exhaustive on the finite domain (IEEE double, this platform's libm): the REAL function on all 65 340 codes, passed as
  uint16 (what the catalogue loader passes) and as int64: unit norms, mutual orthogonality, middle = minor x major,
  pairwise distinct triads, covering radius of +-major axes <= 4 degrees.
Trigonometry puts the geometric clauses outside SMT; the domain is finite, so the enumeration is complete.
"""
import numpy as np
import z3

NCODE = 12 * 121 * 45


def decomposition_lemmas(run):
    c, c2 = z3.Ints('c c2')

    def parts(code, tag):
        capp = code / 45
        iaz = code - capp * 45
        cap = capp / 121
        b = capp - cap * 121
        it = z3.Int('it' + tag)
        hyp = z3.And(it >= 0, it * it <= b, b < (it + 1) * (it + 1))        # it = floor(sqrt(b))
        ir = b - it * it
        return (cap, it, ir, iaz), hyp
    (cap, it, ir, iaz), h1 = parts(c, '1')
    rng = [0 <= c, c < NCODE]
    run.lemma('lemma.euler16_subindices_in_range', rng + [h1],
              z3.And(0 <= cap, cap < 12, 0 <= it, it < 11, 0 <= ir, ir <= 2 * it, 0 <= iaz, iaz < 45))
    run.lemma('lemma.euler16_code_reconstructs', rng + [h1], c == ((cap * 121) + it * it + ir) * 45 + iaz)
    (cap2, it2, ir2, iaz2), h2 = parts(c2, '2')
    run.lemma('lemma.euler16_decomposition_injective', rng + [0 <= c2, c2 < NCODE, h1, h2, cap == cap2, it == it2, ir == ir2, iaz == iaz2],
              c == c2)
    # surjective: every tuple in range is the decomposition of its code
    a, t, r, z = z3.Ints('a t r z')
    code = ((a * 121) + t * t + r) * 45 + z
    run.lemma('lemma.euler16_every_cell_has_a_code', [0 <= a, a < 12, 0 <= t, t < 11, 0 <= r, r <= 2 * t, 0 <= z, z < 45],
              z3.And(0 <= code, code < NCODE, code / 45 - (code / 45 / 121) * 121 == t * t + r, code - (code / 45) * 45 == z, code / 45 / 121 == a))


def geometry(dtype):
    import sys
    from abacusnbody.data.compaso_halo_catalog import _unpack_euler16
    codes = np.arange(NCODE).astype(dtype)
    try:
        minor, middle, major = _unpack_euler16(codes.copy())
    except Exception as ex:      # noqa
        return f'decoder raised {ex!r}'
    for nm, v in (('minor', minor), ('middle', middle), ('major', major)):
        if v.shape != (NCODE, 3) or not np.all(np.isfinite(v)):
            bad = int(np.argwhere(~np.isfinite(v).all(axis=1))[0][0]) if v.shape == (NCODE, 3) else -1
            return f'{nm} axis not finite / wrong shape (first bad code {bad})'
        err = np.abs(np.linalg.norm(v, axis=1) - 1)
        if err.max() > 1e-9:
            return f'code {int(err.argmax())}: |{nm}| = {np.linalg.norm(v[err.argmax()])}'
    for (a, va), (b, vb) in ((('minor', minor), ('major', major)), (('minor', minor), ('middle', middle)), (('middle', middle), ('major', major))):
        d = np.abs(np.einsum('ij,ij->i', va, vb))
        if d.max() > 1e-9:
            return f'code {int(d.argmax())}: {a}.{b} = {d.max()}'
    cr = np.cross(minor, major) - middle
    if np.abs(cr).max() > 1e-9:
        return f'code {int(np.abs(cr).max(axis=1).argmax())}: middle != minor x major'
    # pairwise distinct: sort rounded 9-vectors, then exact separation of neighbours
    tri = np.concatenate([minor, middle, major], axis=1)
    order = np.lexsort(np.round(tri, 6).T[::-1])
    st = tri[order]
    sep = np.abs(st[1:] - st[:-1]).max(axis=1)
    if sep.min() < 1e-6:
        k = int(sep.argmin())
        return f'codes {int(order[k])} and {int(order[k + 1])} decode to the same triad (separation {sep.min():.2e})'
    # covering radius of the major axes up to sign on a 1-degree-ish Fibonacci grid
    n = 20000
    i = np.arange(n) + 0.5
    phi = np.arccos(1 - 2 * i / n)
    th = np.pi * (1 + 5 ** 0.5) * i
    pts = np.stack([np.cos(th) * np.sin(phi), np.sin(th) * np.sin(phi), np.cos(phi)], axis=1)
    um = np.unique(np.round(major, 9), axis=0)
    best = np.zeros(n)
    for s in range(0, n, 2000):
        best[s:s + 2000] = np.abs(pts[s:s + 2000] @ um.T).max(axis=1)
    ang = np.degrees(np.arccos(np.clip(best, -1, 1)))
    if ang.max() > 4.0:
        return f'direction {pts[ang.argmax()].round(4).tolist()} is {ang.max():.2f} degrees from the nearest major axis (format cell ~4 degrees)'
    return None


def check(run):
    run.level = 'other'
    decomposition_lemmas(run)
    run.discharge()
    n = 0
    for dt in (np.uint16, np.int64, np.int32):
        why = geometry(dt)
        n += NCODE
        if why:
            run.bounded_violation(f'_unpack_euler16 on all codes as {np.dtype(dt).name}', dict(dtype=np.dtype(dt).name), f'{np.dtype(dt).name} input: {why}')
            break
    run.add_bounded('_unpack_euler16 on every valid code', n, NCODE,
                    'all 65340 codes x input dtypes uint16/int64/int32: unit norms, orthogonality, handedness, pairwise distinct triads, covering radius of +-major on a 20000-point sphere grid <= 4 degrees',
                    [dict(code=0), dict(code=65339)], exhaustive=True)
    run.extra['explanation'] = ('integer decomposition proved bijective by z3 (4 lemmas); geometric clauses decided by complete enumeration of the finite '
                                'domain on the real function (not an SMT proof): exhaustive for this platform libm')
    run.extra['exhaustive'] = True
    run.assumptions += ['IEEE double arithmetic of this platform (other libm implementations not covered)',
                        'covering radius evaluated on a 20000-point Fibonacci sphere grid (spacing ~1.4 degrees), threshold 4 degrees']


def replay_file(rec, repo):
    w = rec.get('witness', {})
    return bool(geometry(np.dtype(w.get('dtype', 'uint16')).type))
