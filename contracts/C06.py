"""C06 - mass assignment conserves weight and applies the TSC/CIC kernel.

Spec (written from the property statement, independent of the code's rounding choice): along one axis with g cells a
particle at grid coordinate p adds to cell c the amount
        A(p, c, g) = sum_{j=-1..2} [ floor(p)+j  is congruent to  c  (mod g) ] * K(floor(p) + j - p)
where K is the TSC spline (3/4 - s^2 for |s|<=1/2, (3/2-|s|)^2/2 for 1/2<=|s|<=3/2, else 0) or the CIC hat max(0, 1-|s|);
the four candidates floor(p)-1 .. floor(p)+2 cover the support of K.  In 3-D the deposit is the product over the axes
times the particle weight.  Postcondition of the kernels:  density[c] = density_in[c] + sum_n W_n A_x A_y A_z.
Conservation, non-negativity and shift-equivariance are lemmas about A and K (proved below in reals).
"""
import itertools
import random

import numpy as np
import z3

from pyvc.engine import FnSpec, LoopSpec, CalleeSpec, SV, Arr, St, DT

TSC = 'abacusnbody/analysis/tsc.py'
CIC = 'abacusnbody/analysis/cic.py'
R = z3.ToReal
HALF = z3.RealVal('1/2')


def K_tsc(s):
    a = z3.If(s >= 0, s, -s)
    return z3.If(a <= HALF, z3.RealVal('3/4') - s * s, z3.If(a <= z3.RealVal('3/2'), (z3.RealVal('3/2') - a) * (z3.RealVal('3/2') - a) / 2, z3.RealVal(0)))


def K_cic(s):
    a = z3.If(s >= 0, s, -s)
    return z3.If(a <= 1, 1 - a, z3.RealVal(0))


def cong(m, c, g):
    """m congruent to c modulo g, for -1 <= m <= g+2 and 0 <= c < g (g >= 1): finitely many wraps"""
    return z3.Or(*[m == c + q * g for q in (-1, 0, 1, 2, 3)])


def A_expr(K, p, c, g):
    f = z3.ToInt(p)
    return z3.Sum([z3.If(cong(f + j, c, g), K(R(f + j) - p), z3.RealVal(0)) for j in (-1, 0, 1, 2)])


def make_ghosts(K, with_offset):
    def ghosts(gc):
        eng, entry = gc.eng, gc.entry
        pos = gc.arr_term('positions')
        dens = gc.arg('density')
        gs = [dens.shape[k] for k in range(3)]
        box = eng.toreal(eng.tosv(gc.arg('boxsize'))).t
        off = eng.toreal(eng.tosv(gc.arg('offset'))).t if with_offset else z3.RealVal(0)
        w = gc.arg('weights')
        wt = gc.arr_term('weights') if w is not None else None
        PX = []
        for a in range(3):
            if with_offset:
                PX.append(gc.define(f'PX{a}', ['int'], 'real', lambda n, a=a: SV((z3.Select(z3.Select(pos, n.t), a) + off) * (R(gs[a]) / box), 'real')))
            else:
                PX.append(gc.define(f'PX{a}', ['int'], 'real', lambda n, a=a: SV((z3.Select(z3.Select(pos, n.t), a) / box) * R(gs[a]), 'real')))
        WN = gc.define('WN', ['int'], 'real', lambda n: SV(z3.Select(wt, n.t) if wt is not None else z3.RealVal(1), 'real'))
        AX = [gc.define(f'AX{a}', ['real', 'int'], 'real', lambda p, c, a=a: SV(A_expr(K, p.t, c.t, gs[a]), 'real')) for a in range(3)]
        DEP = gc.define('DEP', ['real', 'real', 'real', 'real', 'int', 'int', 'int'], 'real',
                        lambda W, px, py, pz, cx, cy, cz: SV(W.t * AX[0](px.t, cx.t) * AX[1](py.t, cy.t) * AX[2](pz.t, cz.t), 'real'))
        SUM = z3.Function('SUM', z3.IntSort(), z3.IntSort(), z3.IntSort(), z3.IntSort(), z3.RealSort())
        n, cx, cy, cz = z3.Ints('sn scx scy scz')
        gc.axiom(z3.ForAll([cx, cy, cz], SUM(0, cx, cy, cz) == 0, patterns=[SUM(0, cx, cy, cz)]))
        gc.axiom(z3.ForAll([n, cx, cy, cz], z3.Implies(n >= 0, SUM(n + 1, cx, cy, cz) == SUM(n, cx, cy, cz) +
                                                         DEP(WN(n), PX[0](n), PX[1](n), PX[2](n), cx, cy, cz)),
                           patterns=[SUM(n + 1, cx, cy, cz)]))
        gc.fn('SUM', lambda a, b, c, d: SV(SUM(*[eng.tosv(x).t for x in (a, b, c, d)]), 'real'))
    return ghosts


INCELL = '0 <= cx and cx < density.shape[0] and 0 <= cy and cy < density.shape[1] and 0 <= cz and cz < density.shape[2]'
POST = f'forall((cx, cy, cz), {INCELL}, density[cx, cy, cz] == old(density[cx, cy, cz]) + SUM(len(positions), cx, cy, cz))'
INV = f'forall((cx, cy, cz), {INCELL}, density[cx, cy, cz] == old(density[cx, cy, cz]) + SUM(n, cx, cy, cz))'
CELLS = {0: ('jxm1', 'jxw', 'jxp1'), 1: ('jym1', 'jyw', 'jyp1'), 2: ('jzm1', 'jzw', 'jzp1')}


def cell_lets(threeD):
    """name the actual cells written (numba wraps a negative index once)"""
    out = []
    for a, (i, names) in enumerate((('ix', CELLS[0]), ('iy', CELLS[1]), ('iz', CELLS[2]))):
        g = f'density.shape[{a}]'
        for suffix, nm in zip(('m1', 'w', 'p1'), names):
            if a == 2 and not threeD and suffix != 'w':
                continue
            x = i + suffix
            out.append(f'let {nm} = ite({x} < 0, {x} + {g}, {x})')
    return out


def axis_lemma(a, v, w):
    """the three (cell, weight) pairs written along one axis add up to the spline A at every cell"""
    c = 'cx cy cz'.split()[a]
    j = CELLS[a]
    return f'ite({j[0]} == {c}, {w}m1, 0) + ite({j[1]} == {c}, {w}, 0) + ite({j[2]} == {c}, {w}p1, 0) == AX{a}({v}, {c})'


def sum_ite(threeD):
    """the 27 (9) read-modify-write statements as one guarded sum (proved from the store chain by the array theory)"""
    terms = []
    zs = list(zip(CELLS[2], ('wzm1', 'wz', 'wzp1'))) if threeD else [('jzw', 'wz')]
    for jx, wxn in zip(CELLS[0], ('wxm1', 'wx', 'wxp1')):
        for jy, wyn in zip(CELLS[1], ('wym1', 'wy', 'wyp1')):
            for jz, wzn in zs:
                terms.append(f'ite({jx} == cx and {jy} == cy and {jz} == cz, {wxn} * {wyn} * {wzn} * W, 0)')
    return '(' + ' + '.join(terms) + ')'


def step_hint(threeD):
    pz = 'pz' if threeD else 'PX2(n - 1)'
    zl = axis_lemma(2, 'pz', 'wz') if threeD else f'ite(jzw == cz, wz, 0) == AX2({pz}, cz)'
    return ('forall_intro forall((cx, cy, cz), ' + INCELL +
            f', density[cx, cy, cz] == iter_old(density[cx, cy, cz]) + DEP(W, px, py, {pz}, cx, cy, cz)) using ' +
            ' ;; '.join(cell_lets(threeD) + [axis_lemma(0, 'px', 'wx'), axis_lemma(1, 'py', 'wy'), zl,
                                             f'density[cx, cy, cz] == iter_old(density[cx, cy, cz]) + {sum_ite(threeD)}',
                                             f'{sum_ite(threeD)} == DEP(W, px, py, {pz}, cx, cy, cz)']))


def req(with_offset, zthin):
    r = ['boxsize > 0', 'density.shape[0] >= 2', 'density.shape[1] >= 2',
         'density.shape[2] == 1' if zthin else 'density.shape[2] >= 2',
         'density.shape[0] < 32766 and density.shape[1] < 32766 and density.shape[2] < 32766',      # int16 cell indices up to g+1
         'implies(weights is not None, len(weights) >= len(positions))',
         'forall(r, 0, len(positions), 0 <= positions[r, 0] and positions[r, 0] <= boxsize and 0 <= positions[r, 1] and '
         'positions[r, 1] <= boxsize and 0 <= positions[r, 2] and positions[r, 2] <= boxsize)']
    if with_offset:
        # any sub-cell offset up to half a cell on every axis (what interlacing uses)
        r += ['offset >= 0'] + [f'offset * density.shape[{a}] <= boxsize / 2' for a in range(3)]
    return r


def grid_hints(with_offset, at='n'):
    """the grid coordinate stays in [0, g + 1/2]: the only non-linear step, proved once per axis and then used linearly"""
    out = {}
    for a, v in enumerate(('px', 'py', 'pz')):
        hi = f'density.shape[{a}] + 1/2' if with_offset else f'density.shape[{a}]'
        out[a] = [f'positions[{at}, {a}] >= 0 and positions[{at}, {a}] <= boxsize', f'{v} == PX{a}({at})',
                  f'0 <= {v} and {v} <= {hi}']
    return out


NAMED = ['px', 'py', 'pz', 'W', 'inv_hx', 'inv_hy', 'inv_hz', 'wx', 'wxm1', 'wxp1', 'wy', 'wym1', 'wyp1', 'wz', 'wzm1', 'wzp1',
         'dx', 'dy', 'dz']


def loop_spec(with_offset, zthin):
    gh = grid_hints(with_offset)
    end = ['W == WN(n - 1)', 'px == PX0(n - 1)', 'py == PX1(n - 1)']
    if zthin:
        hi = 'density.shape[2] + 1/2' if with_offset else 'density.shape[2]'
        end += ['positions[n - 1, 2] >= 0 and positions[n - 1, 2] <= boxsize', f'0 <= PX2(n - 1) and PX2(n - 1) <= {hi}']
    else:
        end += ['pz == PX2(n - 1)']
    return LoopSpec(invariant=[INV, 'implies(weights is None, W == 1)'],
                    body_asserts={'ix = ': gh[0], 'iy = ': gh[1], 'iz = ': gh[2]},
                    asserts=end + [step_hint(not zthin)])


def spec_tsc(weights, zthin):
    return FnSpec(TSC, '_tsc_scatter', prop='C06', name=f'_tsc_scatter[weights={weights},z={"1" if zthin else ">=2"}]',
                  args=dict(positions='real[:,3]!ro', density='real[:,:,:]', boxsize='real',
                            weights='real[:]!ro' if weights else None, offset='real'),
                  ghosts=make_ghosts(K_tsc, True), requires=req(True, zthin), ensures=[POST], frame=['density'],
                  inline=['_rightwrap'], check_fits=True, name_values=NAMED, loops={0: loop_spec(True, zthin)})


def spec_cic(weights, zthin):
    return FnSpec(CIC, 'cic_serial', prop='C06', name=f'cic_serial[weights={weights},z={"1" if zthin else ">=2"}]',
                  args=dict(positions='real[:,3]!ro', density='real[:,:,:]', boxsize='real',
                            weights='real[:]!ro' if weights else None),
                  ghosts=make_ghosts(K_cic, False), requires=req(False, zthin), ensures=[POST], frame=['density'],
                  inline=['rightwrap'], check_fits=True, name_values=NAMED, loops={0: loop_spec(False, zthin)})


def tsc_callee_frame():
    return None


# ------------------------------------------------------------------ reference implementation (independent, numpy)
def ref_paint(pos, shape, box, weights=None, offset=0.0, kind='tsc'):
    """direct evaluation of the spline on every cell image (no rounding trick): O(N * cells-in-support)"""
    dens = np.zeros(shape, dtype=np.float64)
    g = np.array(shape, dtype=np.float64)

    def K(s):
        a = abs(s)
        if kind == 'tsc':
            return 0.75 - s * s if a <= 0.5 else (0.5 * (1.5 - a) ** 2 if a <= 1.5 else 0.0)
        return max(0.0, 1.0 - a)
    for n in range(len(pos)):
        W = 1.0 if weights is None else float(weights[n])
        p = [(float(pos[n, a]) + offset) * shape[a] / box for a in range(3)]
        ax = []
        for a in range(3):
            f = int(np.floor(p[a]))
            ax.append([(m % shape[a], K(m - p[a])) for m in range(f - 2, f + 4) if K(m - p[a]) != 0.0])
        for (cx, kx), (cy, ky), (cz, kz) in itertools.product(*ax):
            dens[cx, cy, cz] += W * kx * ky * kz
    return dens


def judge(kind, pos, shape, box, weights, offset, dtype=np.float64, pre=None):
    from abacusnbody.analysis.tsc import _tsc_scatter
    from abacusnbody.analysis.cic import cic_serial
    pos = np.asarray(pos, dtype=dtype).reshape(-1, 3)
    w = None if weights is None else np.asarray(weights, dtype=dtype)
    dens = np.zeros(shape, dtype=dtype) if pre is None else pre.astype(dtype).copy()
    base = dens.astype(np.float64).copy()
    try:
        if kind == 'tsc':
            _tsc_scatter(pos, dens, box, weights=w, offset=offset)
        else:
            cic_serial(pos, dens, box, weights=w)
    except (IndexError, SystemError) as ex:       # bounds check inside a parallel kernel surfaces as SystemError
        return f'out-of-bounds access: {ex}'
    ref = base + ref_paint(pos.astype(np.float64), shape, box, None if w is None else w.astype(np.float64), offset, kind)
    tol = (2e-5 if dtype == np.float32 else 1e-10) * max(1.0, float(np.abs(ref).max()))
    bad = np.argwhere(np.abs(dens.astype(np.float64) - ref) > tol)
    if len(bad):
        c = tuple(int(x) for x in bad[0])
        return f'cell {c}: got {float(dens[c])} expected {float(ref[c])} (shape {shape}, {len(pos)} particles, offset {offset})'
    return None


def cases(seed, n, kind):
    rnd = random.Random(seed)
    out = []
    shapes = [(4, 4, 4), (3, 5, 2), (2, 2, 2), (8, 3, 6), (5, 5, 1), (4, 6, 1), (7, 7, 7)]
    for shape in shapes:
        box = rnd.choice([1.0, 2000.0, 7.5])
        offs = [0.0] if kind == 'cic' else [0.0, 0.5 * box / max(shape), 0.25 * box / max(shape)]
        for off in offs:
            pts = []
            for a in range(3):
                h = box / shape[a]
                pts.append([0.0, box, h / 2, box - h / 2, h, 1.5 * h, box - h, box * (1 - 1e-9), h * 0.5 + 1e-9 * box] +
                           [rnd.uniform(0, box) for _ in range(3)])
            P = [[rnd.choice(pts[0]), rnd.choice(pts[1]), rnd.choice(pts[2])] for _ in range(n)]
            P += [[box, box, box], [0.0, 0.0, 0.0], [box / 2, box / 2, box / 2]]
            out.append((shape, box, off, P, [rnd.uniform(0.0, 3.0) for _ in P]))
    return out


def replayer(kind):
    def rep(obl, model):
        for shape, box, off, P, W in cases(7, 12, kind):
            if kind == 'tsc' and obl is not None and 'z=>=2' in (obl.fn or '') and shape[2] == 1:
                continue
            for w in (None, W):
                why = judge(kind, P, shape, box, w, off)
                if why:
                    return True, f'{kind} shape={shape} box={box} offset={off} positions={P[:4]}...: {why}'
        return False, 'no case reproduced'
    return rep


def bounded(run):
    # the public entry point with weights through the partitioned path (sort on/off): each particle is deposited with ITS weight
    # (runs first: the fork pool must start before the parent initialises numba's threading layer)
    from contracts import C07
    tasks = [(run.seed + 70 + k, nt, npn, sort, True) for k, (nt, npn, sort) in enumerate(itertools.product((2, 5), (None, 4), (False, True)))]
    tasks += [(run.seed + 90 + k, 1, npn, False, True) for k, npn in enumerate((3, 5, 8))]        # single thread, odd and even stripe counts
    for t, why in zip(tasks, run.pmap(C07._e2e_worker, tasks)):
        if why:
            run.bounded_violation('tsc_parallel with weights vs spline reference', dict(seed=t[0], nthread=t[1], npartition=t[2], sort=t[3]), why)
            break
    run.add_bounded('real tsc_parallel (weights, partitioned, sort on/off) vs direct spline evaluation', len(tasks), len(tasks),
                    '24 x 8 x 6 grid, 400 weighted particles incl. periodic images, nthread {2,5} x npartition {default, 4} x sort', [dict(nthread=5, npartition=4, sort=True)])
    nev = 0
    ncase = 0
    for kind in ('tsc', 'cic'):
        for shape, box, off, P, W in cases(run.seed + 3, 10 if run.tier == 'quick' else 200, kind):
            for dt in (np.float64, np.float32):
                for w in (None, W):
                    pre = None if ncase % 3 else np.arange(np.prod(shape), dtype=np.float64).reshape(shape) / 7.0
                    why = judge(kind, P, shape, box, w, off, dt, pre)
                    nev += len(P)
                    ncase += 1
                    if why:
                        run.bounded_violation(f'{kind} vs spline reference', dict(kind=kind, shape=shape, box=box, offset=off,
                                                                                  positions=P, weights=w, dtype=dt.__name__), why)
                        return
    run.add_bounded('compiled _tsc_scatter / cic_serial vs direct spline evaluation', nev, ncase,
                    'grids incl. anisotropic, 2-cell and one-cell-thick axes; positions on cell centres, half-cell edges, 0 and BoxSize; offsets 0, 1/4, 1/2 cell; float32/64; with/without weights; accumulation into a pre-filled grid',
                    [dict(shape=(3, 5, 2), box=7.5, offset=0.0)])


def kernel_lemmas(run):
    """properties of the spec functions themselves (reals): what the statement lists as consequences"""
    t = z3.Real('t')
    for name, K, terms in (('tsc', K_tsc, (-1, 0, 1, 2)), ('cic', K_cic, (-1, 0, 1, 2))):
        # partition of unity: the four candidates floor(p)-1..floor(p)+2 see offsets j - t, t = p - floor(p) in [0,1)
        run.lemma(f'lemma.{name}.partition_of_unity', [t >= 0, t < 1], z3.Sum([K(z3.RealVal(j) - t) for j in terms]) == 1)
        run.lemma(f'lemma.{name}.nonnegative', [], K(t) >= 0)
        run.lemma(f'lemma.{name}.support[K(s)=0 outside the four candidates]', [z3.Or(t >= z3.RealVal('3/2'), t <= -z3.RealVal('3/2'))], K(t) == 0)
        run.lemma(f'lemma.{name}.continuous_at_breaks', [], z3.And(K(HALF) == K_tsc(HALF) if name == 'tsc' else K(z3.RealVal(1)) == 0,
                                                                   K(z3.RealVal('3/2')) == 0 if name == 'tsc' else K(z3.RealVal(0)) == 1))
        # conservation along one axis: sum over cells c of A(p, c, g) = 1  <=  each candidate is congruent to exactly one c in [0,g)
        m, g, c1, c2 = z3.Ints('m g c1 c2')
        run.lemma(f'lemma.{name}.each_candidate_hits_one_cell.exists',
                  [g >= 1, m >= -1, m <= g + 2], z3.Exists([c1], z3.And(c1 >= 0, c1 < g, cong(m, c1, g))))
        run.lemma(f'lemma.{name}.each_candidate_hits_one_cell.unique',
                  [g >= 1, 0 <= c1, c1 < g, 0 <= c2, c2 < g, m >= -1, m <= g + 2, cong(m, c1, g), cong(m, c2, g)], c1 == c2)
        # whole-cell shift rolls the grid: A(p + 1, c + 1 (wrapped), g) = A(p, c, g)
        p = z3.Real('p')
        c = z3.Int('c')
        run.lemma(f'lemma.{name}.shift_by_one_cell_rolls_the_grid',
                  [g >= 1, 0 <= c, c < g, p >= 0, p <= R(g) - HALF],
                  A_expr(K, p + 1, z3.If(c + 1 >= g, c + 1 - g, c + 1), g) == A_expr(K, p, c, g))


def check(run):
    run.level = 'proof'
    kernel_lemmas(run)
    for weights in (True, False):
        for zthin in (False, True):
            run.prove(spec_tsc(weights, zthin), replayer('tsc'))
            run.prove(spec_cic(weights, zthin), replayer('cic'))
    run.discharge()
    bounded(run)
    run.assumptions += ['floats are reals; fastmath ignored', 'positions in [0, BoxSize], offset in [0, half a cell], axes >= 2 cells (z may be 1)',
                        'int16 index type: grid axes < 2^15 (fits obligations generated)']


def replay_file(rec, repo):
    return replayer('tsc')(None, None)[0] or replayer('cic')(None, None)[0]
