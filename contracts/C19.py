"""C19 - cumsum writes exactly the selected partial sums for every length.

Property statement (transcribed): "writes exactly the partial sums selected by its initial/final flags, starting from
the offset, into the output array and returns the grand total, matching numpy.cumsum, for every input length including
0 and 1 ...; an output of the wrong length is rejected, and nothing outside the output array is read or written."
"""
import itertools

import numpy as np
import z3

from pyvc.engine import FnSpec, LoopSpec, SV

FILE = 'abacusnbody/util.py'


def ghosts(g):
    """S(k) = offset + sum(arr[:k]) as a ghost function with its recurrence"""
    arr = g.arr_term('arr')
    off = g.arg('offset')
    psum = z3.Function('psum', z3.IntSort(), z3.RealSort())
    k = z3.Int('k')
    g.axiom(psum(0) == 0)
    g.axiom(z3.ForAll([k], z3.Implies(k >= 0, psum(k + 1) == psum(k) + z3.Select(arr, k)), patterns=[psum(k + 1)]))
    offr = g.eng.toreal(g.eng.tosv(off)).t
    g.fn('S', lambda kk: SV(offr + psum(kk.t if isinstance(kk, SV) else z3.IntVal(kk)), 'real'))
    g.unfolder('S', lambda kk: [z3.Implies(kk.t >= 0, psum(kk.t + 1) == psum(kk.t) + z3.Select(arr, kk.t))])


def spec(initial, final):
    return FnSpec(
        FILE, 'cumsum', prop='C19', name=f'cumsum[initial={initial},final={final}]',
        args=dict(arr='real[:]', out='real[:]', initial=initial, final=final, offset='real'),
        ghosts=ghosts,
        requires=[],                                    # every length, including 0
        rejects=[('ValueError', 'len(out) != len(arr) - 1 + int(initial) + int(final)')],
        ensures=['result == S(len(arr))',
                 'forall(j, 0, len(out), out[j] == S(j + 1 - int(initial)))'],
        post_hints=['unfold S(len(arr) - 1)'],
        frame=['out'],
        loops={0: LoopSpec(invariant=['total == S(i)',
                                      'implies(initial, out[0] == S(0))',
                                      'forall(j, 0, i, out[j + int(initial)] == S(j + 1))'],
                           asserts=['unfold S(i - 1)'])},
    )


def oracle(arr, initial, final, offset):
    S = [offset]
    for x in arr:
        S.append(S[-1] + x)
    N = len(arr)
    return S[(0 if initial else 1):(N + 1 if final else N)], S[N]


def run_real(arr, nout, initial, final, offset, in_dt=np.float64, out_dt=np.float64, as_list=False):
    """run the real compiled function (NUMBA_BOUNDSCHECK=1 is set by the driver); returns (kind, payload)"""
    from abacusnbody.util import cumsum
    a = [in_dt(x).item() for x in arr] if as_list else np.array(arr, dtype=in_dt)
    if as_list and len(a) == 0:
        from numba.typed import List
        a = np.array([], dtype=in_dt)
    out = np.full(max(nout, 0), 12345, dtype=out_dt)
    guard = np.full(max(nout, 0) + 2, 777, dtype=out_dt)      # canary cells around a view
    view = guard[1:1 + max(nout, 0)]
    try:
        tot = cumsum(a, view, initial=initial, final=final, offset=offset)
    except ValueError as ex:
        return 'rejected', str(ex)
    except IndexError as ex:
        return 'oob', str(ex)
    if guard[0] != 777 or guard[-1] != 777:
        return 'oob', 'canary cell next to the output array was overwritten'
    return 'ok', (view.copy(), tot)


def judge(arr, nout, initial, final, offset, **kw):
    """None if the real function agrees with the property on this input, else a description"""
    want, total = oracle(list(arr), initial, final, offset)
    n_expected = len(arr) - 1 + int(initial) + int(final)
    kind, got = run_real(arr, nout, initial, final, offset, **kw)
    if kind == 'oob':
        return f'out-of-bounds access: {got}'
    if nout != n_expected:
        return None if kind == 'rejected' else f'wrong output length {nout} (expected {n_expected}) was not rejected'
    if kind == 'rejected':
        return f'correct output length {nout} rejected: {got}'
    o, t = got
    if len(o) != len(want) or any(abs(float(a) - float(b)) > 1e-9 * max(1, abs(float(b))) for a, b in zip(o, want)):
        return f'out={o.tolist()} expected {want}'
    if abs(float(t) - float(total)) > 1e-9 * max(1, abs(float(total))):
        return f'total={t} expected {total}'
    return None


def frac(x):
    import fractions
    if isinstance(x, str):
        if x.startswith('alg:'):
            return float(x[4:].rstrip('?'))
        return float(fractions.Fraction(x))
    return float(x)


def make_replayer(initial, final, run):
    def rep(obl, model):
        cases = []
        if model is not None:
            n = max(0, min(int(model.get('len_arr', 0)), 10))
            nout = max(0, min(int(model.get('len_out', 0)), 12))
            arrv = model.get('arr')
            arr = [frac(arrv[i]) if isinstance(arrv, list) and i < len(arrv) else 1.0 for i in range(n)]
            cases.append((arr, nout, frac(model.get('offset', 0))))
        else:
            for n in range(0, 5):
                for nout in range(0, 7):
                    cases.append(([float(i + 1) for i in range(n)], nout, 2.0))
        for arr, nout, off in cases:
            why = judge(arr, nout, initial, final, off)
            if why:
                w = dict(arr=arr, len_out=nout, initial=initial, final=final, offset=off)
                return True, f'input {w}: {why}'
        return False, 'no case reproduced'
    return rep


def bounded(run):
    """E3 stand-in for what the real-arithmetic proof does not see: dtype pairings and list input"""
    pairs = [(np.float64, np.float64), (np.float32, np.float64), (np.int64, np.int64), (np.uint32, np.uint64),
             (np.int32, np.float64), (np.uint8, np.int64)]
    nev = 0
    distinct = set()
    samples = []
    for n in range(0, 6):
        for initial, final in itertools.product([False, True], repeat=2):
            nout = n - 1 + int(initial) + int(final)
            for (i_dt, o_dt) in pairs:
                for as_list in (False, True):
                    if as_list and n == 0:
                        continue      # an empty python list cannot be typed by numba (loud TypingError, not silent)
                    for off in (0, 3):
                        arr = [(7 * i + 3) % 11 + 1 for i in range(n)]
                        if nout < 0:
                            continue
                        why = judge(arr, nout, initial, final, off, in_dt=i_dt, out_dt=o_dt, as_list=as_list)
                        nev += 1
                        distinct.add((n, initial, final, i_dt.__name__, o_dt.__name__, as_list, off))
                        if len(samples) < 3:
                            samples.append(dict(arr=arr, initial=initial, final=final, offset=off,
                                                dtypes=[i_dt.__name__, o_dt.__name__], list_input=as_list))
                        if why:
                            run.bounded_violation(
                                f'cumsum n={n} initial={initial} final={final} {i_dt.__name__}->{o_dt.__name__} list={as_list}',
                                dict(arr=arr, initial=initial, final=final, offset=off, in_dtype=i_dt.__name__,
                                     out_dtype=o_dt.__name__, as_list=as_list), why)
            # wrong lengths must be rejected
            for nout in range(0, n + 3):
                if nout == n - 1 + int(initial) + int(final):
                    continue
                why = judge([1.0] * n, nout, initial, final, 0)
                nev += 1
                distinct.add((n, initial, final, 'wronglen', nout))
                if why:
                    run.bounded_violation(f'cumsum wrong length n={n} nout={nout} initial={initial} final={final}',
                                          dict(n=n, nout=nout, initial=initial, final=final), why)
    run.add_bounded('cumsum dtype pairings / list input / wrong lengths (run-time contract check)', nev, len(distinct),
                    'lengths 0..5 x flags x 6 dtype pairs x ndarray/list input x 2 offsets; every wrong output length 0..n+2',
                    samples, exhaustive=False)


def check(run):
    run.level = 'proof'
    for initial, final in itertools.product([False, True], repeat=2):
        run.prove(spec(initial, final), make_replayer(initial, final, run))
    run.discharge()
    bounded(run)
    run.assumptions += [
        'element arithmetic is mathematical (reals): integer overflow of the running total and float rounding are not modelled',
        'numba indexing semantics: a negative index wraps once, slices clamp, no bounds check afterwards',
        'dtype pairings (uint32 -> uint64, list input) are covered only by the bounded run-time check, not by the proof',
    ]
    run.trusted += ['z3 5.1 / cvc5 1.0.3', 'pyvc AST->VC encoder (cross-checked at run time against the compiled function)']


def replay_file(rec, repo):
    import re
    m = re.search(r'initial=(True|False),final=(True|False)', rec['obligation'])
    if rec.get('witness'):
        w = rec['witness']
        if 'arr' in w:
            return bool(judge(w['arr'], len(w['arr']) - 1 + int(w['initial']) + int(w['final']), w['initial'], w['final'],
                              w.get('offset', 0)))
        return bool(judge([1.0] * w['n'], w['nout'], w['initial'], w['final'], 0))
    if not m:
        return False
    initial, final = m.group(1) == 'True', m.group(2) == 'True'
    ok, _ = make_replayer(initial, final, None)(None, rec.get('model'))
    if not ok:
        ok, _ = make_replayer(initial, final, None)(None, None)
    return ok
