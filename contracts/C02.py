"""C02 - a halo column's values do not depend on what else was requested.

Mechanisms decided for all inputs:
* loader purity (E2, shared with C05): every loader closure, executed symbolically on the running code object, is a
  function of raw columns and the unit constants only, except the declared reads of sigmavMid (sigmavMaj, sigmavMin);
* read-dependency discipline in _read_halo_info / _load_halo_field (structural analysis of the real AST): inside a loop body no
  variable is read that is the loop variable of a DIFFERENT, non-enclosing loop (a stale variable makes the dtype/shape of a
  per-file temporary depend on which other columns were requested);
* _setup_fields decided by native execution on its finite option space: for every valid column name alone, 'all', the default
  set and representative pairs x cleaned x light-cone x subsample selection, the index columns (and, when cleaned, the merge
  columns) of every requested subsample are in the returned lists;
* _get_halo_fields_dependencies returns dependencies before dependents (executed for every valid name).
Bounded: for every valid column X, real loads with fields=[X] vs [X, Y] (both orders, representative Y of every dtype class,
dependency siblings), 'all', default, cleaned on/off, subsamples on/off: identical values, no request raises.
"""
import ast
import itertools
import os
import shutil
import tempfile
import warnings

import numpy as np
import z3

from rtc import synth
from contracts import C05

FILE = 'abacusnbody/data/compaso_halo_catalog.py'


def stale_loop_variables(repo, funcs=('_read_halo_info', '_load_halo_field', '_setup_fields', '_load_subsamples')):
    """reads, inside a loop body, of the loop variable of another loop that does not enclose it"""
    tree = ast.parse(open(os.path.join(repo, FILE)).read())
    cls = [n for n in tree.body if isinstance(n, ast.ClassDef) and n.name == 'CompaSOHaloCatalog'][0]
    problems, nloops = [], 0
    for fn in cls.body:
        if not isinstance(fn, ast.FunctionDef) or fn.name not in funcs:
            continue
        loops = [n for n in ast.walk(fn) if isinstance(n, ast.For)]
        targets = {}
        for lp in loops:
            for t in ast.walk(lp.target):
                if isinstance(t, ast.Name):
                    targets.setdefault(t.id, []).append(lp)
        for lp in loops:
            nloops += 1
            # names (re)bound inside this loop or inside any loop that encloses it are not stale
            enclosing = [o for o in loops if any(x is lp for x in ast.walk(o))]
            inner_assigned = {t.id for o in enclosing for n in ast.walk(o) for t in ast.walk(n) if isinstance(t, ast.Name) and isinstance(t.ctx, ast.Store)
                              and not any(t is y for y in ast.walk(o.target))} | {t.id for t in ast.walk(lp.target) if isinstance(t, ast.Name)}
            for n in ast.walk(lp):
                if isinstance(n, ast.Name) and isinstance(n.ctx, ast.Load) and n.id in targets and n.id not in inner_assigned:
                    owners = targets[n.id]
                    # allowed if some owning loop encloses this read
                    encl = any(any(x is n for x in ast.walk(o)) for o in owners)
                    if not encl and n.lineno > min(o.lineno for o in owners):
                        problems.append(f'{fn.name} line {n.lineno}: `{n.id}` is the loop variable of the loop at line {owners[0].lineno}, read inside the loop at line {lp.lineno}')
    return problems, nloops


def all_names():
    from abacusnbody.data import compaso_halo_catalog as chc
    return list(chc.user_dt.names), list(chc.clean_dt_progen.names), list(chc.halo_lc_dt.names)


def setup_fields_exhaustive(run):
    from abacusnbody.data import compaso_halo_catalog as chc
    user, clean, lc = all_names()
    n = 0
    reqs = [[x] for x in user] + ['all', 'DEFAULT_FIELDS', ['N'], ['N', 'x_com'], ['id', 'npstartA'], ['npoutB', 'npoutA'], []]
    reqs_clean = [[x] for x in clean] + [['N_total', 'N'], ['npstartA_merge']]
    for cleaned in (True, False):
        for halo_lc in (False, True):
            for load_AB in ([], ['A'], ['B'], ['A', 'B']):
                for req in reqs + (reqs_clean if cleaned else []):
                    obj = chc.CompaSOHaloCatalog.__new__(chc.CompaSOHaloCatalog)
                    obj.data_key = 'data'
                    try:
                        f, cf = obj._setup_fields(list(req) if isinstance(req, list) else req, cleaned=cleaned, load_AB=list(load_AB), halo_lc=halo_lc)
                    except Exception as ex:      # noqa
                        run.bounded_violation('_setup_fields raises', dict(fields=req, cleaned=cleaned, load_AB=load_AB, halo_lc=halo_lc),
                                              f'_setup_fields({req}, cleaned={cleaned}, load_AB={load_AB}, halo_lc={halo_lc}) raised {ex!r}')
                        return n
                    n += 1
                    for AB in load_AB:
                        need = [('npstart' + AB, f), ('npout' + AB, f)] + ([('npstart' + AB + '_merge', cf), ('npout' + AB + '_merge', cf)] if cleaned else [])
                        for nm, where in need:
                            if nm not in where:
                                run.bounded_violation('_setup_fields omits an index column', dict(fields=req, cleaned=cleaned, load_AB=load_AB, halo_lc=halo_lc),
                                                      f'fields={req}, cleaned={cleaned}, load_AB={load_AB}, halo_lc={halo_lc}: {nm} (needed to index subsample {AB}) is not loaded')
                                return n
    return n


def dependency_order(run):
    from abacusnbody.data import compaso_halo_catalog as chc
    user, clean, lc = all_names()
    obj = chc.CompaSOHaloCatalog.__new__(chc.CompaSOHaloCatalog)
    obj.header = {'BoxSize': 2.0, 'VelZSpace_to_kms': 3.0}
    obj.convert_units, obj.halo_lc, obj.cleaned, obj.verbose = True, False, True, False
    obj._setup_halo_field_loaders()
    n = 0
    for name in user + clean:
        raw, withdeps, extra = obj._get_halo_fields_dependencies([name])
        n += 1
        pos = {f: i for i, f in enumerate(withdeps)}
        if name not in pos:
            run.bounded_violation('_get_halo_fields_dependencies', dict(field=name), f'{name} missing from its own load order {withdeps}')
            return n
        for e in extra:
            if pos.get(e, 10 ** 9) > pos[name]:
                run.bounded_violation('_get_halo_fields_dependencies order', dict(field=name), f'dependency {e} of {name} is loaded after it: {withdeps}')
                return n
    return n


# ------------------------------------------------------------------ bounded co-request matrix
def _load(T, **kw):
    from abacusnbody.data import compaso_halo_catalog as chc
    with warnings.catch_warnings():
        warnings.simplefilter('ignore')
        return chc.CompaSOHaloCatalog(T.groupdir, **kw)


def _worker(task):
    seed, names, cleaned, ch, nch, tier = task
    root = tempfile.mkdtemp(prefix='c02_')
    nev = 0
    try:
        T = synth.make_catalog(root, (3, 2), seed=seed, cleaned=True, max_np=2)
        try:
            ref_all = _load(T, fields='all', cleaned=cleaned, subsamples=False)
        except Exception as ex:      # noqa
            return nev, (dict(fields='all', cleaned=cleaned), f"fields='all', cleaned={cleaned} raised {ex!r}")
        others = ['N', 'id', 'x_com', 'r25_L2com', 'sigmavMin_com', 'sigmavMaj_L2com', 'sigmar_com', 'sigmav_eigenvecsMid_com', 'npoutA', 'L2_N']
        if cleaned:
            others += ['N_total', 'N_merge', 'v_L2com_mainprog']
        if tier == 'quick':
            # one representative per dtype class (uint32, float vector, int16-ratio with dependency, eigenvector group)
            others = ['N', 'x_com', 'sigmavMin_com', 'sigmav_eigenvecsMid_com'] + (['N_merge'] if cleaned else [])
        # dependency siblings: the columns X is derived from / shares raw inputs with, in both orders
        sib = {'r': ['r100_com', 'r100_L2com'], 's': ['sigmav3d_com', 'sigmav3d_L2com', 'r100_com', 'r100_L2com']}
        others_for = lambda X: others + [y for y in sib.get(X[0], []) if y not in others and X.endswith(y.split('_', 1)[1])]      # noqa: E731
        for k, X in enumerate(names):
            if k % nch != ch:
                continue
            key = 'N' if (cleaned and X == 'N_total') else X
            variants = [([X], False)]
            if not X.startswith(('npstart', 'npout')):
                # index columns are re-based onto the loaded subsample table (C01), so they legitimately differ with subsamples on
                variants += [([X], dict(A=True, pos=True)), ([X], dict(A=True, B=True, pid=True))]
            for Y in others_for(X):
                if Y != X:
                    variants += [([X, Y], False), ([Y, X], False)]
            if cleaned and X.endswith('_mainprog'):
                # the main-progenitor history columns are reshaped together: every ordered pair among them
                for Y in names:
                    if Y.endswith('_mainprog') and Y != X and ([X, Y], False) not in variants:
                        variants += [([X, Y], False), ([Y, X], False)]
            variants += [('DEFAULT_FIELDS', False)]
            base = None
            for fields, subs in variants:
                nev += 1
                try:
                    c = _load(T, fields=fields, cleaned=cleaned, subsamples=dict(subs) if isinstance(subs, dict) else subs)
                except Exception as ex:      # noqa
                    return nev, (dict(column=X, fields=fields, cleaned=cleaned, subsamples=str(subs)),
                                 f'requesting fields={fields}, cleaned={cleaned}, subsamples={subs} raised {ex!r}')
                col = key if key in c.halos.colnames else (X if X in c.halos.colnames else None)
                if fields == 'DEFAULT_FIELDS' and col is None:
                    continue
                if col is None:
                    if cleaned and X == 'N':
                        continue        # N has no meaning in a cleaned catalogue (replaced by the cleaned count)
                    return nev, (dict(column=X, fields=fields, cleaned=cleaned), f'column {X} missing from the catalogue loaded with fields={fields}, cleaned={cleaned}')
                v = np.asarray(c.halos[col])
                if base is None:
                    base = v
                    want = np.asarray(ref_all.halos[col]) if col in ref_all.halos.colnames else None
                    if want is not None and not np.array_equal(v, want, equal_nan=True):
                        return nev, (dict(column=X, cleaned=cleaned), f"column {X}: fields=[{X!r}] differs from fields='all' (cleaned={cleaned}): {v[:3]} vs {want[:3]}")
                elif not np.array_equal(v, base, equal_nan=True):
                    return nev, (dict(column=X, fields=fields, cleaned=cleaned, subsamples=str(subs)),
                                 f'column {X} loaded with fields={fields}, subsamples={subs}, cleaned={cleaned} differs from loading it alone: {v[:3]} vs {base[:3]}')
    finally:
        shutil.rmtree(root, ignore_errors=True)
    return nev, None


class _FakeHalos:
    def __init__(self, colnames):
        self.colnames = list(colnames)


def multi_column_loaders(run):
    """the loaders that fill several columns in one call (light-cone pos/vel interpolation, eigenvector triples), called natively on
    numpy columns: the value of every produced column must not depend on WHICH of the co-requested columns the loader was invoked
    for, nor on which other columns are present - and equals the documented expression for the interpolation loader"""
    import re as _re
    from abacusnbody.data import compaso_halo_catalog as chc
    obj = chc.CompaSOHaloCatalog.__new__(chc.CompaSOHaloCatalog)
    obj.header = {'BoxSize': 37.5, 'VelZSpace_to_kms': 2917.0}
    obj.convert_units, obj.halo_lc, obj.cleaned, obj.verbose = True, True, False, False
    obj._setup_halo_field_loaders(passthrough=False)
    rng = np.random.default_rng(run.seed + 3)
    n = 9
    # halos whose averaged position / velocity is available, not available, and the corner cases where only one of the two is zero
    pos_avg = rng.random((n, 3)) + 0.1
    vel_avg = rng.random((n, 3)) + 0.1
    pos_avg[[1, 4, 6]] = 0.0
    vel_avg[[1, 5, 6]] = 0.0
    raw = dict(pos_avg=pos_avg, vel_avg=vel_avg, pos_interp=rng.random((n, 3)) + 5, vel_interp=rng.random((n, 3)) + 7,
               origin=rng.integers(0, 6, n))
    avail = np.any(pos_avg, axis=1)          # documented: the averaged quantities are used where the averaged POSITION is available
    want = dict(pos_interp=np.where(avail[:, None], raw['pos_avg'], raw['pos_interp']), vel_interp=np.where(avail[:, None], raw['vel_avg'], raw['vel_interp']))
    nev, bad = 0, None

    def loader_for(name):
        ms = [(pat, pat.fullmatch(name)) for pat in obj.halo_field_loaders if pat.fullmatch(name)]
        return ms[0] if len(ms) == 1 else (None, None)
    for called, cols in (('pos_interp', ['pos_interp']), ('vel_interp', ['vel_interp']), ('pos_interp', ['pos_interp', 'vel_interp']),
                         ('vel_interp', ['pos_interp', 'vel_interp']), ('vel_interp', ['vel_interp', 'pos_interp', 'N'])):
        pat, m = loader_for(called)
        if pat is None:
            continue
        try:
            out = obj.halo_field_loaders[pat](m, {k: v.copy() for k, v in raw.items()}, _FakeHalos(cols))
        except Exception as ex:      # noqa
            bad = bad or (dict(called_for=called, present=cols), f'light-cone interpolation loader raised {ex!r}')
            continue
        nev += 1
        cols_out = out if isinstance(out, dict) else {called: out}
        for k, v in cols_out.items():
            if k in want and not np.array_equal(np.asarray(v), want[k]) and not bad:
                rows = np.nonzero(np.any(np.asarray(v) != want[k], axis=1))[0].tolist()
                bad = (dict(called_for=called, present=cols, column=k, rows=rows),
                       f'column {k} produced while loading {called} with columns {cols} differs from where(any(pos_avg), avg, interp) in rows {rows}')
    # eigenvector triples: each of Min / Mid / Maj the same whichever member triggered the load
    codes = rng.integers(0, 65340, n).astype(np.uint16)
    for rnv in ('sigmar_eigenvecs', 'sigmav_eigenvecs'):
        ref = None
        for called in ('Min', 'Mid', 'Maj'):
            name = f'{rnv}{called}_com'
            pat, m = loader_for(name)
            if pat is None:
                continue
            for cols in ([name], [f'{rnv}Min_com', f'{rnv}Mid_com', f'{rnv}Maj_com']):
                try:
                    out = obj.halo_field_loaders[pat](m, {f'{rnv}_com_u16': codes.copy()}, _FakeHalos(cols))
                except Exception as ex:      # noqa
                    bad = bad or (dict(called_for=name, present=cols), f'eigenvector loader raised {ex!r}')
                    continue
                nev += 1
                for k, v in (out.items() if isinstance(out, dict) else [(name, out)]):
                    if ref is None:
                        ref = {}
                    if k in ref and not np.array_equal(ref[k], np.asarray(v)) and not bad:
                        bad = (dict(called_for=name, present=cols, column=k), f'column {k} depends on which member of the triple triggered the load')
                    ref.setdefault(k, np.asarray(v))
    if bad:
        run.bounded_violation('multi-column loader output depends on the co-requested columns', bad[0], bad[1])
    run.add_bounded('multi-column loaders (light-cone interpolation, eigenvector triples) called natively for every triggering column / column set', nev, nev,
                    '9 halos incl. averaged position and velocity both / neither / only one available; 2 eigenvector families x 3 triggering members x alone / all three',
                    [dict(called_for='vel_interp', present=['pos_interp', 'vel_interp'])])


def check(run):
    run.level = 'other'
    # 1. loader purity on the running closures (E2)
    run.replayers['lemma'] = C05.lemma_replayer
    C05.e2_proofs(run, run.repo)
    keep = [o for o in run.eng.obls if '.pure[' in o.name or 'reads_only_declared' in o.name or 'exactly_one_match' in o.name]
    run.eng.obls[:] = keep
    for o in run.eng.obls:
        o.name = o.name.replace('C05.', 'C02.', 1)
    run.lemma_obls = len(keep)
    # 2. stale loop variables
    problems, nloops = stale_loop_variables(run.repo)
    run.extra['stale_loop_variable_analysis'] = dict(loops_analysed=nloops, problems=problems)
    if problems:
        run.bounded_violation('per-file temporary depends on an unrelated request (stale loop variable)', dict(problems=problems), '; '.join(problems))
    run.discharge()
    # 3. finite option spaces by native execution
    n1 = setup_fields_exhaustive(run)
    n2 = dependency_order(run)
    run.add_bounded('_setup_fields / _get_halo_fields_dependencies on their finite option spaces (native execution)', n1 + n2, n1 + n2,
                    'every valid column alone + all + default + pairs x cleaned x light cone x load_AB in {[], A, B, AB}; dependency order for every valid name',
                    [dict(fields=['N'], cleaned=False, load_AB=['A'])], exhaustive=True)
    multi_column_loaders(run)
    # 4. bounded co-request matrix on real loads
    user, clean, lc = all_names()
    NCH = 8
    tasks = [(run.seed + 40, user, False, ch, NCH, run.tier) for ch in range(NCH)] + [(run.seed + 41, user + clean, True, ch, NCH, run.tier) for ch in range(NCH)]
    res = run.pmap(_worker, tasks)
    nev = sum(r[0] for r in res)
    bad = next((r[1] for r in res if r[1]), None)
    if bad:
        run.bounded_violation('column depends on co-requested columns', bad[0], bad[1])
    run.add_bounded('real loads: fields=[X] vs [X,Y] / [Y,X] / all / default, subsamples on/off, cleaned on/off', nev, len(user) + len(clean),
                    'every valid column X x 10-13 representative co-requested columns in both orders x subsample selections; values must be identical and no request may raise',
                    [dict(column='sigmavMid_com', fields=['sigmavMid_com', 'N'])])
    run.extra['explanation'] = ('loader purity proved on the running closures (E2), stale-variable discipline by structural analysis, option spaces by complete '
                                'native enumeration; end-to-end independence bounded')
    run.assumptions += ['astropy Table / asdf object layer trusted; files uncompressed', 'light-cone catalogues not covered end-to-end']


def replay_file(rec, repo):
    problems, _ = stale_loop_variables(repo)
    return bool(problems)
