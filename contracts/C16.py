"""C16 - read_asdf returns exactly the requested particle columns.

BOUNDED (exploration) with one exhaustively decided finite piece:
* _resolve_columns decided completely by native execution on its whole finite domain (colname x load subsets x deprecated
  flags) against the documented rule (not an SMT proof: the function is pure list logic on concrete values);
* raw-column auto-detection: all 16 subsets of the known raw columns present in a file, with and without explicit colname;
* synthetic rvint / pack9 / packedpid / pid files (0-9 records; snapshot and light-cone headers) x every subset of the
  columns loadable for the file type x float32/float64 x deprecated flags: table has exactly the requested columns
  (documented defaults otherwise), one row per particle in file order, values equal to the independent decoders of
  C04/C15, unaffected by co-requested columns, meta = header.
"""
import itertools
import os
import shutil
import tempfile
import warnings

import numpy as np

from contracts import C04, C15

ALL = ['pos', 'vel', 'pid', 'lagr_pos', 'tagged', 'density', 'lagr_idx', 'aux']
PIDCOLS = ['pid', 'lagr_pos', 'tagged', 'density', 'lagr_idx', 'aux']


def documented_resolution(colname, load, load_pos, load_vel):
    """the documented rule: an explicit load list wins; else the deprecated flags (a flag set True loads that column, a
    single False flag loads the other one); else pos+vel for rvint/pack9 files and pid for pid files"""
    if load is not None:
        return tuple(load)
    if load_pos is not None or load_vel is not None:
        out = []
        if load_pos or (load_pos is None and load_vel is False):
            out.append('pos')
        if load_vel or (load_vel is None and load_pos is False):
            out.append('vel')
        return tuple(out)
    out = []
    if colname in ('pack9', 'rvint'):
        out += ['pos', 'vel']
    if 'pid' in colname:
        out += ['pid']
    return tuple(out)


def resolver_exhaustive(run):
    from abacusnbody.data.read_abacus import _resolve_columns
    n = 0
    for colname in ('rvint', 'pack9', 'packedpid', 'pid', 'other'):
        for r in range(-1, len(ALL) + 1):
            loads = [None] if r < 0 else [list(c) for c in itertools.combinations(ALL, r)]
            for load in loads:
                for lp, lv in itertools.product((None, True, False), repeat=2):
                    kw = {}
                    if lp is not None:
                        kw['load_pos'] = lp
                    if lv is not None:
                        kw['load_vel'] = lv
                    with warnings.catch_warnings():
                        warnings.simplefilter('ignore')
                        got = _resolve_columns(colname, None if load is None else list(load), kw)
                    n += 1
                    want = documented_resolution(colname, load, lp, lv)
                    if tuple(got) != want:
                        run.bounded_violation('_resolve_columns', dict(colname=colname, load=load, load_pos=lp, load_vel=lv),
                                              f'_resolve_columns({colname!r}, {load}, load_pos={lp}, load_vel={lv}) = {tuple(got)}, documented {want}')
                        return n
                    if kw:
                        return_kw = kw       # the deprecated keys must be consumed
                        if 'load_pos' in return_kw or 'load_vel' in return_kw:
                            run.bounded_violation('_resolve_columns leaves deprecated keys', dict(kw=kw), 'deprecated flags not popped')
                            return n
    return n


HDR = dict(BoxSize=2000.0, VelZSpace_to_kms=1250.0, ppd=float(1536 ** 3) ** (1 / 3),      # = 1535.9999999999993: the header stores NP**(1/3)
           SimSet='AbacusSummit', ParticleSubsampleA=0.03, ParticleSubsampleB=0.07)


def make_file(tmp, name, cols, lightcone=False):
    import asdf
    hdr = dict(HDR)
    if lightcone:
        hdr['OutputType'] = 'LightCone'
    fn = os.path.join(tmp, name)
    asdf.AsdfFile({'header': hdr, 'data': cols}).write_to(fn)
    return fn, hdr


def expected_columns(kind, raw, load, dtype):
    box, velz, ppd = HDR['BoxSize'], HDR['VelZSpace_to_kms'], int(round(HDR['ppd']))
    out = {}
    if kind == 'rvint':
        pv = [[C04.ref_rvint(w, box) for w in row] for row in raw]
        if 'pos' in load:
            out['pos'] = np.array([[p for p, v in row] for row in pv], dtype=np.float64).reshape(-1, 3)
        if 'vel' in load:
            out['vel'] = np.array([[v for p, v in row] for row in pv], dtype=np.float64).reshape(-1, 3)
    elif kind == 'pack9':
        pos, vel = C15.ref_decode(raw, box, velz)
        if 'pos' in load:
            out['pos'] = np.array(pos, dtype=np.float64).reshape(-1, 3)
        if 'vel' in load:
            out['vel'] = np.array(vel, dtype=np.float64).reshape(-1, 3)
    else:
        refs = [C04.ref_pid(p, box, ppd) for p in raw]
        for c in load:
            if c == 'aux':
                out['aux'] = np.array(raw, dtype=np.uint64)
            elif c in ('lagr_pos', 'lagr_idx'):
                out[c] = np.array([r[c] for r in refs], dtype=np.float64).reshape(-1, 3)
            else:
                out[c] = np.array([r[c] for r in refs], dtype=np.float64)
    return out


def judge_table(fn, hdr, kind, raw, load, dtype, kw=None, colname=None):
    from abacusnbody.data.read_abacus import read_asdf
    kw = dict(kw or {})
    with warnings.catch_warnings():
        warnings.simplefilter('ignore')
        try:
            t = read_asdf(fn, load=load, colname=colname, dtype=dtype, verbose=False, **kw)
        except Exception as ex:      # noqa
            return f'read_asdf raised {ex!r}'
    eff = documented_resolution(kind if colname is None else colname, load, kw.get('load_pos'), kw.get('load_vel'))
    want = expected_columns(kind, raw, eff, dtype)
    if sorted(t.colnames) != sorted(want):
        return f'columns {sorted(t.colnames)} expected {sorted(want)}'
    nrow = len(next(iter(want.values()))) if want else 0
    if want and len(t) != nrow:
        return f'{len(t)} rows expected {nrow}'
    tol = 3e-6 if dtype == np.float32 else 1e-11
    for c, w in want.items():
        g = np.asarray(t[c])
        if c == 'aux':
            if not np.array_equal(g, w):
                return 'aux column differs from the raw column'
            continue
        if g.shape != w.shape:
            return f'column {c} shape {g.shape} expected {w.shape}'
        if len(w) and not np.all(np.abs(g.astype(np.float64) - w) <= tol * np.maximum(np.maximum(np.abs(w), HDR['BoxSize']) if c in ('pos', 'lagr_pos') else np.maximum(np.abs(w), 1.0), 1.0)):
            k = int(np.argmax(np.abs(g.astype(np.float64) - w).reshape(len(w), -1).max(axis=1)))
            return f'column {c} row {k}: {g[k]} expected {w[k]}'
        if c in ('pos', 'vel', 'lagr_pos', 'density') and g.dtype != np.dtype(dtype):
            return f'column {c} has dtype {g.dtype}, requested {np.dtype(dtype)}'
    for k, v in hdr.items():
        if k not in t.meta or t.meta[k] != v:
            return f'meta[{k}] = {t.meta.get(k)!r} expected {v!r}'
    return None


def check(run):
    run.level = 'exploration'
    nres = resolver_exhaustive(run)
    run.add_bounded('_resolve_columns on its complete finite domain (native execution)', nres, nres,
                    '5 colnames x (None + all 256 subsets of the 8 loadable names) x load_pos, load_vel in {None, True, False}', [dict(colname='pack9', load=None, load_vel=False)],
                    exhaustive=True)
    rng = np.random.default_rng(run.seed + 16)
    tmp = tempfile.mkdtemp(prefix='c16_')
    nev = 0
    bad = None
    try:
        # ---- auto-detection over all subsets of known raw columns
        from abacusnbody.data.read_abacus import read_asdf
        rv = rng.integers(-2 ** 31, 2 ** 31, (4, 3)).astype(np.int32)
        p9 = np.array(C15.battery(1, 1)[1][:4], dtype=np.uint8)
        pid = rng.integers(0, 2 ** 63, 5).astype(np.uint64)
        known = dict(rvint=rv, pack9=p9, packedpid=pid, pid=pid[:3])
        for r in range(0, 5):
            for names in itertools.combinations(known, r):
                cols = {k: known[k] for k in names}
                cols['other'] = np.arange(3)
                fn, hdr = make_file(tmp, 'det_' + '_'.join(names) + '.asdf', cols)
                nev += 1
                try:
                    with warnings.catch_warnings():
                        warnings.simplefilter('ignore')
                        t = read_asdf(fn, verbose=False)
                    ok = len(names) == 1
                    detail = f'file with raw columns {list(names)} loaded without colname (columns {t.colnames})'
                except ValueError:
                    ok = len(names) != 1
                    detail = f'file with the single raw column {list(names)} was rejected'
                except Exception as ex:      # noqa
                    ok, detail = False, f'file with raw columns {list(names)}: unexpected {ex!r}'
                if not ok and not bad:
                    bad = (dict(raw_columns=list(names)), detail)
                for nm in names:
                    kind = 'pid' if 'pid' in nm else nm
                    raw = known[nm].tolist()
                    why = judge_table(fn, hdr, kind if kind != 'pid' else nm, raw, None, np.float32, colname=nm)
                    nev += 1
                    if why and not bad:
                        bad = (dict(raw_columns=list(names), colname=nm), f'explicit colname={nm}: {why}')
        # ---- column subsets per file type
        sizes = (0, 1, 3, 9) if run.tier == 'quick' else (0, 1, 2, 3, 6, 9, 20)
        for lc in (False, True):
            for N in sizes:
                files = {}
                rvd = rng.integers(-2 ** 31, 2 ** 31, (N, 3)).astype(np.int32)
                files['rvint'] = (rvd, rvd.tolist())
                stream = []
                for s in C15.battery(int(rng.integers(10 ** 6)), 3)[-3:]:
                    stream += s
                stream = stream[:N] if N else []
                if stream and stream[0][0] != 0xFF:
                    stream = [C15.header(100, 2000, [1, 2, 3])] + stream[:-1]
                p9d = np.array(stream, dtype=np.uint8).reshape(-1, 9)
                files['pack9'] = (p9d, p9d.tolist())
                pd_ = rng.integers(0, 2 ** 64, N, dtype=np.uint64)
                files['packedpid'] = (pd_, pd_.tolist())
                files['pid'] = (pd_, pd_.tolist())
                for kind, (arr, raw) in files.items():
                    fn, hdr = make_file(tmp, f'{kind}_{N}_{int(lc)}.asdf', {kind: arr}, lightcone=lc)
                    if lc:
                        hdr = dict(hdr, SubsampleFraction=HDR['ParticleSubsampleA'] + HDR['ParticleSubsampleB'])
                    names = ['pos', 'vel'] if kind in ('rvint', 'pack9') else PIDCOLS
                    subsets = [None] + [list(c) for r in range(0, len(names) + 1) for c in itertools.combinations(names, r)]
                    if kind not in ('rvint', 'pack9') and run.tier == 'quick':
                        subsets = [None] + [list(c) for r in (0, 1, 2, 6) for c in itertools.combinations(names, r)]
                    for load in subsets:
                        for dt in (np.float32, np.float64):
                            why = judge_table(fn, hdr, kind, raw, load, dt)
                            nev += 1
                            if why and not bad:
                                bad = (dict(kind=kind, N=N, load=load, dtype=np.dtype(dt).name, lightcone=lc), f'{kind} file, {N} records, load={load}, {np.dtype(dt).name}: {why}')
                    if kind in ('rvint', 'pack9'):
                        for lp, lv in itertools.product((None, True, False), repeat=2):
                            if lp is None and lv is None:
                                continue
                            kw = {k: v for k, v in (('load_pos', lp), ('load_vel', lv)) if v is not None}
                            why = judge_table(fn, hdr, kind, raw, None, np.float32, kw=kw)
                            nev += 1
                            if why and not bad:
                                bad = (dict(kind=kind, N=N, flags=kw), f'{kind} file deprecated flags {kw}: {why}')
                if bad:
                    break
            if bad:
                break
    finally:
        shutil.rmtree(tmp, ignore_errors=True)
    if bad:
        run.bounded_violation('read_asdf table differs from the direct decoding', bad[0], bad[1])
    run.add_bounded('read_asdf on synthetic particle files vs independent decoders', nev, nev,
                    'all 16 subsets of known raw columns (auto-detect + explicit colname); rvint/pack9/packedpid/pid files with 0..9 records, snapshot and light-cone headers, every load subset (None included), float32/64, deprecated load_pos/load_vel',
                    [dict(kind='pack9', N=3, load=['vel'], dtype='float32')])
    run.extra['explanation'] = 'bounded run-time contract check; resolver decided on its complete finite domain by native execution'
    run.assumptions += ['ASDF/blosc I/O layer stubbed: files are written and read uncompressed through asdf 5.4',
                        'astropy Table behaves as a column container']


def replay_file(rec, repo):
    return True
