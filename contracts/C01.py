"""C01 - each halo row indexes exactly its own subsample particles.

Status: BOUNDED stand-in for the loader as a whole (astropy/asdf object code), plus deductive pieces shared with other
checks: util.cumsum (C19 contract: new write offsets are prefix sums for every length incl. 0) and the bit decoders (C04).
The run-time contract (written from the property statement) is evaluated on the real CompaSOHaloCatalog over synthetic
catalogues whose raw arrays are the ground truth: for every halo row and loaded subsample the slice
subsamples[npstart : npstart+npout] holds exactly the halo's own records (originals addressed by start/count in its own
superslab's file - none if cleaned away - then the merged records of the cleaning file), slices contiguous, disjoint, in
halo-row order, A before B, lengths summing to the table length.
"""
import itertools
import shutil
import tempfile
import warnings

import numpy as np

from rtc import synth

LAYOUTS = [(4, 0, 5), (3,), (0,), (1, 1), (0, 0), (5, 2, 0, 3)]


def load(T, **kw):
    from abacusnbody.data import compaso_halo_catalog as chc
    with warnings.catch_warnings():
        warnings.simplefilter('ignore')
        return chc.CompaSOHaloCatalog(kw.pop('path', T.groupdir), **kw)


def option_matrix(tier):
    subs = [dict(A=True, B=True, rvint=True, packedpid=True), dict(A=True, rvint=True), dict(B=True, packedpid=True),
            dict(A=True, B=True, rv=True, pid=True), dict(A=True, pos=True), dict(B=True, vel=True, pid=True), dict(A=True, B=True, pid=True)]
    out = []
    for cleaned in (True, False):
        for sb in subs:
            passthrough = 'rvint' in sb or 'packedpid' in sb
            out.append(dict(cleaned=cleaned, subsamples=dict(sb), passthrough=passthrough, fields='all' if passthrough else ['N', 'x_com']))
    out.append(dict(cleaned=True, subsamples=dict(A=True, B=True, pid=True), unpack_bits=True, fields=['id']))
    out.append(dict(cleaned=False, subsamples=dict(A=True, pid=True, pos=True), unpack_bits=['density', 'tagged'], fields=['id']))
    out.append(dict(cleaned=False, subsamples=True, fields=['N']))
    return out


def load_AB_of(sb):
    if sb is True:
        return 'AB'
    ab = ''.join(k for k in 'AB' if sb.get(k))
    return ab or 'A'


def judge(T, opts, path=None, slabs=None):
    o = dict(opts)
    o['subsamples'] = dict(o['subsamples']) if isinstance(o['subsamples'], dict) else o['subsamples']
    if path is not None:
        o['path'] = path
    try:
        cat = load(T, **o)
    except Exception as ex:      # noqa
        return f'loader raised {ex!r}'
    return synth.check_slices(cat, T, opts['cleaned'], load_AB_of(opts['subsamples']), slabs=slabs)


def _layout_worker(task):
    li, layout, seed, tier = task
    nev, bad = 0, None
    root = tempfile.mkdtemp(prefix='c01_')
    try:
        T = synth.make_catalog(root, layout, seed=seed + li, max_np=3)
        for opts in option_matrix(tier):
            why = judge(T, opts)
            nev += 1
            if why and not bad:
                bad = (dict(halos_per_superslab=list(layout), options={k: str(v) for k, v in opts.items()}), why)
        # single file / file list (incl. files that do not start at superslab 0)
        base = dict(cleaned=True, subsamples=dict(A=True, B=True, rvint=True, packedpid=True), passthrough=True, fields='all')
        n = len(layout)
        sels = [[i] for i in range(n)] + ([list(range(1, n))] if n > 2 else []) + ([[0, n - 1]] if n > 2 else [])
        for sel in sels:
            files = synth.halo_files(T, sel)
            for cleaned in (True, False):
                o = dict(base, cleaned=cleaned)
                why = judge(T, o, path=files if len(files) > 1 else files[0], slabs=sel)
                nev += 1
                if why and not bad:
                    bad = (dict(halos_per_superslab=list(layout), files=sel, cleaned=cleaned), f'files {sel}: {why}')
    finally:
        shutil.rmtree(root, ignore_errors=True)
    return nev, bad


def check(run):
    run.level = 'other'
    for sp in zipper_specs(run.tier):
        run.prove(sp, zipper_replayer)
    run.discharge()
    layouts = LAYOUTS if run.tier == 'quick' else LAYOUTS + [(2, 7, 1), (6,), (1, 0, 1, 0, 2)]
    res = run.pmap(_layout_worker, [(li, layout, run.seed, run.tier) for li, layout in enumerate(layouts)])
    nev = sum(r[0] for r in res)
    ncat = len(layouts)
    bad = next((r[1] for r in res if r[1]), None)
    samples = [dict(halos_per_superslab=list(layouts[0]), options=str(option_matrix(run.tier)[0]))]
    # a catalogue whose superslab numbers are not 0,1,2,... (directory with a missing slab)
    if not bad:
        root = tempfile.mkdtemp(prefix='c01_')
        try:
            T = synth.make_catalog(root, (3, 2, 4), seed=run.seed + 77, slab_numbers=[0, 2, 5])
            for cleaned in (True, False):
                why = judge(T, dict(cleaned=cleaned, subsamples=dict(A=True, B=True, rvint=True, packedpid=True), passthrough=True, fields='all'))
                nev += 1
                if why and not bad:
                    bad = (dict(slab_numbers=[0, 2, 5], cleaned=cleaned), f'superslab files 000, 002, 005: {why}')
        finally:
            shutil.rmtree(root, ignore_errors=True)
    if bad:
        run.bounded_violation('subsample slice does not hold the halo\'s own particles', bad[0], bad[1])
    run.add_bounded('real CompaSOHaloCatalog on synthetic catalogues vs independent slice oracle', nev, ncat,
                    'superslab layouts incl. empty slabs / empty catalogue / non-contiguous slab numbers; L0 gaps, zero-particle halos, cleaned-away halos, merged ranges; cleaned on/off x A/B/both x rvint/packedpid/pos/vel/pid x unpack_bits x passthrough x directory / single file / file subsets',
                    samples)
    run.extra['explanation'] = ('per-halo zipper kernels (_unpack_rv_subsamples, _unpack_pid_subsamples) under a deductive SAFETY contract on the real ASTs: every '
                                'subscript / slice store in bounds, shapes agree and the decoder preconditions hold for every well-formed catalogue (write offsets = '
                                'running sums, read ranges inside the slab arrays), all output selections, cleaned on/off; the FUNCTIONAL property (each slice holds the '
                                'halo\'s own records) is decided only by the bounded run-time contract check on synthetic catalogues; new-offset arithmetic is the C19 '
                                'cumsum contract')
    run.assumptions += ['ASDF files written uncompressed (blosc stubbed); astropy/asdf object layer trusted',
                        'light-cone layout (_load_halo_lc_subsamples) not covered by this check']


def zipper_replayer(obl, model):
    """a failed zipper obligation is replayed through the real loader on the synthetic catalogues (passthrough + unpacked)"""
    for li, layout in enumerate([(4, 0, 5), (3,)]):
        root = tempfile.mkdtemp(prefix='c01r_')
        try:
            T = synth.make_catalog(root, layout, seed=li, max_np=3)
            for opts in option_matrix('quick'):
                why = judge(T, opts)
                if why:
                    return True, f'halos per superslab {list(layout)}, options {opts}: {why}'
        finally:
            shutil.rmtree(root, ignore_errors=True)
    return False, 'no case reproduced'


def replay_file(rec, repo):
    return zipper_replayer(None, None)[0]


# ======================================================================================================================
# deductive part: the per-halo read/write zipper kernels (real ASTs, E1) against the callee contracts of the C04 decoders
# ======================================================================================================================
from pyvc.engine import FnSpec, LoopSpec, CalleeSpec, SV, Arr, DT       # noqa: E402
from contracts import C04                                               # noqa: E402

CHC = 'abacusnbody/data/compaso_halo_catalog.py'

WELLFORMED = [
    'len(slab_read_lens) == len(slab_read_offsets)', 'len(slab_write_offsets) == len(slab_read_offsets) + 1',
    # read ranges lie inside the slab particle array (L0 gaps between them are allowed)
    'forall(h, 0, len(slab_read_offsets), 0 <= slab_read_offsets[h] and 0 <= slab_read_lens[h] and slab_read_offsets[h] + slab_read_lens[h] <= len({slab}))',
    # write offsets are the running sums of (original + merged) lengths (established by util.cumsum, C19) and stay inside the outputs
    'forall(h, 0, len(slab_read_offsets), slab_write_offsets[h + 1] == slab_write_offsets[h] + slab_read_lens[h] + {clen})',
    'forall((a, b), 0 <= a and a <= b and b <= len(slab_read_offsets), slab_write_offsets[a] <= slab_write_offsets[b])',
    '0 <= slab_write_offsets[0]',
]
CLEAN_WF = ['len(clean_slab_read_offsets) == len(slab_read_offsets)', 'len(clean_slab_read_lens) == len(slab_read_offsets)',
            'forall(h, 0, len(slab_read_offsets), 0 <= clean_slab_read_offsets[h] and 0 <= clean_slab_read_lens[h] and '
            'clean_slab_read_offsets[h] + clean_slab_read_lens[h] <= len({cslab}))']


def spec_zipper_rv(outputs, cleaned, functional=False):
    """outputs: subset of {'pos','vel','rvint'}.  functional=False: safety contract only (every subscript and slice store in
    bounds, shapes agree, callee preconditions of the decoders hold) under the well-formedness precondition; functional=True adds
    the per-halo zipper postcondition and the frame (two-variable quantified invariants: slow and solver-sensitive, used in the
    thorough tier only and never required for the verdict)"""
    args = dict(pos='real[:,3]' if 'pos' in outputs else None, vel='real[:,3]' if 'vel' in outputs else None,
                rvint='i32[:,3]' if 'rvint' in outputs else None, slab_rvint='i32[:,3]!ro', slab_read_offsets='int[:]!ro',
                slab_read_lens='int[:]!ro', slab_write_offsets='int[:]!ro', boxsize='real',
                clean_slab_rvint='i32[:,3]!ro' if cleaned else None, clean_slab_read_offsets='int[:]!ro' if cleaned else None,
                clean_slab_read_lens='int[:]!ro' if cleaned else None)
    clen = 'clean_slab_read_lens[h]' if cleaned else '0'
    req = [r.format(slab='slab_rvint', clen=clen) for r in WELLFORMED]
    if cleaned:
        req += [r.format(cslab='clean_slab_rvint') for r in CLEAN_WF]
    for o in sorted(outputs):
        req.append(f'slab_write_offsets[len(slab_read_offsets)] <= len({o})')
    H = 'len(slab_read_offsets)'

    def rows(upto):
        cl = []
        for c in range(3):
            if 'pos' in outputs:
                cl.append(f'forall((h, q), 0 <= h and h < {upto} and 0 <= q and q < slab_read_lens[h], '
                          f'pos[slab_write_offsets[h] + q, {c}] == RVPOS(slab_rvint[slab_read_offsets[h] + q, {c}], boxsize))')
            if 'vel' in outputs:
                cl.append(f'forall((h, q), 0 <= h and h < {upto} and 0 <= q and q < slab_read_lens[h], '
                          f'vel[slab_write_offsets[h] + q, {c}] == RVVEL(slab_rvint[slab_read_offsets[h] + q, {c}]))')
            if 'rvint' in outputs:
                cl.append(f'forall((h, q), 0 <= h and h < {upto} and 0 <= q and q < slab_read_lens[h], '
                          f'rvint[slab_write_offsets[h] + q, {c}] == slab_rvint[slab_read_offsets[h] + q, {c}])')
            if cleaned:
                if 'pos' in outputs:
                    cl.append(f'forall((h, q), 0 <= h and h < {upto} and 0 <= q and q < clean_slab_read_lens[h], '
                              f'pos[slab_write_offsets[h] + slab_read_lens[h] + q, {c}] == RVPOS(clean_slab_rvint[clean_slab_read_offsets[h] + q, {c}], boxsize))')
                if 'vel' in outputs:
                    cl.append(f'forall((h, q), 0 <= h and h < {upto} and 0 <= q and q < clean_slab_read_lens[h], '
                              f'vel[slab_write_offsets[h] + slab_read_lens[h] + q, {c}] == RVVEL(clean_slab_rvint[clean_slab_read_offsets[h] + q, {c}]))')
                if 'rvint' in outputs:
                    cl.append(f'forall((h, q), 0 <= h and h < {upto} and 0 <= q and q < clean_slab_read_lens[h], '
                              f'rvint[slab_write_offsets[h] + slab_read_lens[h] + q, {c}] == clean_slab_rvint[clean_slab_read_offsets[h] + q, {c}])')
        # frame: rows outside [wo[0], wo[upto]) keep their contents (other files' slices stay intact)
        for o in sorted(outputs):
            cl.append(f'forall((r, c), 0 <= r and r < len({o}) and 0 <= c and c < 3 and (r < slab_write_offsets[0] or r >= slab_write_offsets[{upto}]), '
                      f'{o}[r, c] == old({o}[r, c]))')
        return cl
    def per_halo_hints():
        """the new halo's rows alone (one bound variable), proved from the callee contract before the two-variable invariant"""
        out = []
        for cl in rows('i'):
            if not cl.startswith('forall((h, q)'):
                continue
            body = cl[len('forall((h, q), 0 <= h and h < i and '):]
            body = body.replace('[h]', '[i - 1]')
            out.append('forall((q,), ' + body)
        return out
    if not functional:
        return FnSpec(CHC, 'CompaSOHaloCatalog._unpack_rv_subsamples', prop='C01',
                      name=f'_unpack_rv_subsamples.safety[{"+".join(sorted(outputs))},cleaned={cleaned}]', mode='bv', args=args, ghosts=C04.ghosts,
                      requires=req, callees={'..bitpacked._unpack_rvint': C04.RV_CALLEE},
                      loops={0: LoopSpec(invariant=['0 <= i and i <= ' + H])})
    return FnSpec(CHC, 'CompaSOHaloCatalog._unpack_rv_subsamples', prop='C01',
                  name=f'_unpack_rv_subsamples[{"+".join(sorted(outputs))},cleaned={cleaned}]', mode='bv', args=args, ghosts=C04.ghosts,
                  requires=req, ensures=rows(H), frame=sorted(outputs),
                  callees={'..bitpacked._unpack_rvint': C04.RV_CALLEE},
                  loops={0: LoopSpec(invariant=['0 <= i and i <= ' + H] + rows('i'), asserts=per_halo_hints())})


def spec_zipper_pid(outputs, cleaned):
    """safety contract of _unpack_pid_subsamples; outputs: subset of {'pid','lagr_pos','tagged','density','lagr_idx','packedpid'}"""
    types = dict(pid='i64[:]', lagr_pos='real[:,3]', tagged='u8[:]', density='real[:]', lagr_idx='i16[:,3]', packedpid='u64[:]')
    args = dict(slab_packedpid='u64[:]!ro', slab_read_offsets='int[:]!ro', slab_read_lens='int[:]!ro', slab_write_offsets='int[:]!ro',
                boxsize='real', ppd='int', clean_slab_packedpid='u64[:]!ro' if cleaned else None,
                clean_slab_read_offsets='int[:]!ro' if cleaned else None, clean_slab_read_lens='int[:]!ro' if cleaned else None)
    for o, t in types.items():
        args[o] = t if o in outputs else None
    clen = 'clean_slab_read_lens[h]' if cleaned else '0'
    req = [r.format(slab='slab_packedpid', clen=clen) for r in WELLFORMED] + ['ppd >= 1']
    if cleaned:
        req += [r.format(cslab='clean_slab_packedpid') for r in CLEAN_WF]
    for o in sorted(outputs):
        req.append(f'slab_write_offsets[len(slab_read_offsets)] <= len({o})')
    return FnSpec(CHC, 'CompaSOHaloCatalog._unpack_pid_subsamples', prop='C01',
                  name=f'_unpack_pid_subsamples.safety[{"+".join(sorted(outputs))},cleaned={cleaned}]', mode='bv', args=args, ghosts=C04.ghosts,
                  requires=req, callees={'..bitpacked._unpack_pids': C04.PID_CALLEE},
                  loops={0: LoopSpec(invariant=['0 <= i and i <= len(slab_read_offsets)'])})


def zipper_specs(tier):
    out = []
    for cleaned in (True, False):
        for outs in ({'pos', 'vel'}, {'rvint'}, {'pos'}, {'vel', 'rvint', 'pos'}):
            out.append(spec_zipper_rv(outs, cleaned))
        for outs in ({'pid'}, {'packedpid'}, {'pid', 'lagr_pos', 'tagged', 'density', 'lagr_idx'}, {'pid', 'packedpid', 'lagr_idx'}):
            out.append(spec_zipper_pid(outs, cleaned))
    if tier == 'thorough':
        out += [spec_zipper_rv({'rvint'}, False, functional=True), spec_zipper_rv({'pos'}, False, functional=True)]
    return out
