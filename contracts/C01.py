"""C01 - each halo row indexes exactly its own subsample particles.

Status: BOUNDED stand-in for the loader as a whole (astropy/asdf object code), plus deductive pieces shared with other
checks: util.cumsum (C19 contract: new write offsets are prefix sums for every length incl. 0) and the bit decoders (C04).
The run-time contract (written from the property statement) is evaluated on the real CompaSOHaloCatalog over synthetic
catalogues whose raw arrays are the ground truth: for every halo row and loaded subsample the slice
subsamples[npstart : npstart+npout] holds exactly the halo's own records (originals addressed by start/count in its own
superslab's file - none if cleaned away - then the merged records of the cleaning file), slices contiguous, disjoint, in
halo-row order, A before B, lengths summing to the table length.
"""
import itertools
import shutil
import tempfile
import warnings

import numpy as np

from rtc import synth

LAYOUTS = [(4, 0, 5), (3,), (0,), (1, 1), (0, 0), (5, 2, 0, 3)]


def load(T, **kw):
    from abacusnbody.data import compaso_halo_catalog as chc
    with warnings.catch_warnings():
        warnings.simplefilter('ignore')
        return chc.CompaSOHaloCatalog(kw.pop('path', T.groupdir), **kw)


def option_matrix(tier):
    subs = [dict(A=True, B=True, rvint=True, packedpid=True), dict(A=True, rvint=True), dict(B=True, packedpid=True),
            dict(A=True, B=True, rv=True, pid=True), dict(A=True, pos=True), dict(B=True, vel=True, pid=True), dict(A=True, B=True, pid=True)]
    out = []
    for cleaned in (True, False):
        for sb in subs:
            passthrough = 'rvint' in sb or 'packedpid' in sb
            out.append(dict(cleaned=cleaned, subsamples=dict(sb), passthrough=passthrough, fields='all' if passthrough else ['N', 'x_com']))
    out.append(dict(cleaned=True, subsamples=dict(A=True, B=True, pid=True), unpack_bits=True, fields=['id']))
    out.append(dict(cleaned=False, subsamples=dict(A=True, pid=True, pos=True), unpack_bits=['density', 'tagged'], fields=['id']))
    out.append(dict(cleaned=False, subsamples=True, fields=['N']))
    return out


def load_AB_of(sb):
    if sb is True:
        return 'AB'
    ab = ''.join(k for k in 'AB' if sb.get(k))
    return ab or 'A'


def judge(T, opts, path=None, slabs=None):
    o = dict(opts)
    o['subsamples'] = dict(o['subsamples']) if isinstance(o['subsamples'], dict) else o['subsamples']
    if path is not None:
        o['path'] = path
    try:
        cat = load(T, **o)
    except Exception as ex:      # noqa
        return f'loader raised {ex!r}'
    return synth.check_slices(cat, T, opts['cleaned'], load_AB_of(opts['subsamples']), slabs=slabs)


def check(run):
    run.level = 'exploration'
    nev, ncat = 0, 0
    bad = None
    samples = []
    layouts = LAYOUTS if run.tier == 'quick' else LAYOUTS + [(2, 7, 1), (6,), (1, 0, 1, 0, 2)]
    for li, layout in enumerate(layouts):
        root = tempfile.mkdtemp(prefix='c01_')
        try:
            T = synth.make_catalog(root, layout, seed=run.seed + li, max_np=3)
            ncat += 1
            for opts in option_matrix(run.tier):
                why = judge(T, opts)
                nev += 1
                if len(samples) < 2:
                    samples.append(dict(halos_per_superslab=list(layout), options={k: (v if not isinstance(v, dict) else dict(v)) for k, v in opts.items()}))
                if why and not bad:
                    bad = (dict(halos_per_superslab=list(layout), options={k: str(v) for k, v in opts.items()}), why)
            # single file / file list (incl. files that do not start at superslab 0)
            base = dict(cleaned=True, subsamples=dict(A=True, B=True, rvint=True, packedpid=True), passthrough=True, fields='all')
            n = len(layout)
            sels = [[i] for i in range(n)] + ([list(range(1, n))] if n > 2 else []) + ([[0, n - 1]] if n > 2 else [])
            for sel in sels:
                files = synth.halo_files(T, sel)
                for cleaned in (True, False):
                    o = dict(base, cleaned=cleaned)
                    why = judge(T, o, path=files if len(files) > 1 else files[0], slabs=sel)
                    nev += 1
                    if why and not bad:
                        bad = (dict(halos_per_superslab=list(layout), files=sel, cleaned=cleaned), f'files {sel}: {why}')
        finally:
            shutil.rmtree(root, ignore_errors=True)
        if bad:
            break
    # a catalogue whose superslab numbers are not 0,1,2,... (directory with a missing slab)
    if not bad:
        root = tempfile.mkdtemp(prefix='c01_')
        try:
            T = synth.make_catalog(root, (3, 2, 4), seed=run.seed + 77, slab_numbers=[0, 2, 5])
            for cleaned in (True, False):
                why = judge(T, dict(cleaned=cleaned, subsamples=dict(A=True, B=True, rvint=True, packedpid=True), passthrough=True, fields='all'))
                nev += 1
                if why and not bad:
                    bad = (dict(slab_numbers=[0, 2, 5], cleaned=cleaned), f'superslab files 000, 002, 005: {why}')
        finally:
            shutil.rmtree(root, ignore_errors=True)
    if bad:
        run.bounded_violation('subsample slice does not hold the halo\'s own particles', bad[0], bad[1])
    run.add_bounded('real CompaSOHaloCatalog on synthetic catalogues vs independent slice oracle', nev, ncat,
                    'superslab layouts incl. empty slabs / empty catalogue / non-contiguous slab numbers; L0 gaps, zero-particle halos, cleaned-away halos, merged ranges; cleaned on/off x A/B/both x rvint/packedpid/pos/vel/pid x unpack_bits x passthrough x directory / single file / file subsets',
                    samples)
    run.extra['explanation'] = 'bounded run-time contract check (E3); no deductive obligations are claimed for the loader plumbing'
    run.assumptions += ['ASDF files written uncompressed (blosc stubbed); astropy/asdf object layer trusted',
                        'light-cone layout (_load_halo_lc_subsamples) not covered by this check']


def replay_file(rec, repo):
    return True
