"""C01 - each halo row indexes exactly its own subsample particles.

Deductive part (E1, real ASTs): the per-halo read/write zipper kernels _unpack_rv_subsamples / _unpack_pid_subsamples against the
C01 postcondition - for every well-formed index table (read ranges inside the raw arrays, write offsets = running sums of
original + merged lengths, which is the C19 cumsum contract), every halo h and every q: output row wo[h] + q is the decode (C04
spec functions) of raw record ro[h] + q of the slab file, row wo[h] + len[h] + q the decode of record cro[h] + q of the cleaning file,
rows outside [wo[0], wo[H]) untouched - for the widest output selections, cleaned on/off (all selections in the thorough tier);
safety-only contracts for the rest.
Bounded part: the loader as a whole (astropy/asdf object code: per-file association, A before B, index-column replacement).
The run-time contract (written from the property statement) is evaluated on the real CompaSOHaloCatalog over synthetic
catalogues whose raw arrays are the ground truth: for every halo row and loaded subsample the slice
subsamples[npstart : npstart+npout] holds exactly the halo's own records (originals addressed by start/count in its own
superslab's file - none if cleaned away - then the merged records of the cleaning file), slices contiguous, disjoint, in
halo-row order, A before B, lengths summing to the table length.
"""
import itertools
import shutil
import tempfile
import warnings

import numpy as np

from rtc import synth

LAYOUTS = [(4, 0, 5), (3,), (0,), (1, 1), (0, 0), (5, 2, 0, 3)]


def load(T, **kw):
    from abacusnbody.data import compaso_halo_catalog as chc
    with warnings.catch_warnings():
        warnings.simplefilter('ignore')
        return chc.CompaSOHaloCatalog(kw.pop('path', T.groupdir), **kw)


def option_matrix(tier):
    subs = [dict(A=True, B=True, rvint=True, packedpid=True), dict(A=True, rvint=True), dict(B=True, packedpid=True),
            dict(A=True, B=True, rv=True, pid=True), dict(A=True, pos=True), dict(B=True, vel=True, pid=True), dict(A=True, B=True, pid=True)]
    out = []
    for cleaned in (True, False):
        for sb in subs:
            passthrough = 'rvint' in sb or 'packedpid' in sb
            out.append(dict(cleaned=cleaned, subsamples=dict(sb), passthrough=passthrough, fields='all' if passthrough else ['N', 'x_com']))
    # the same selections written with B before A (and the column kinds first): A must still precede B in the table
    out.append(dict(cleaned=True, subsamples=dict(B=True, A=True, rvint=True, packedpid=True), passthrough=True, fields='all'))
    out.append(dict(cleaned=False, subsamples=dict(pid=True, pos=True, B=True, A=True), fields=['N']))
    out.append(dict(cleaned=True, subsamples=dict(A=True, B=True, pid=True), unpack_bits=True, fields=['id']))
    out.append(dict(cleaned=False, subsamples=dict(A=True, pid=True, pos=True), unpack_bits=['density', 'tagged'], fields=['id']))
    out.append(dict(cleaned=False, subsamples=True, fields=['N']))
    return out


def load_AB_of(sb):
    if sb is True:
        return 'AB'
    ab = ''.join(k for k in 'AB' if sb.get(k))
    return ab or 'A'


def judge(T, opts, path=None, slabs=None):
    o = dict(opts)
    o['subsamples'] = dict(o['subsamples']) if isinstance(o['subsamples'], dict) else o['subsamples']
    if path is not None:
        o['path'] = path
    try:
        cat = load(T, **o)
    except Exception as ex:      # noqa
        return f'loader raised {ex!r}'
    return synth.check_slices(cat, T, opts['cleaned'], load_AB_of(opts['subsamples']), slabs=slabs)


def _layout_worker(task):
    li, layout, seed, tier = task
    nev, bad = 0, None
    root = tempfile.mkdtemp(prefix='c01_')
    try:
        T = synth.make_catalog(root, layout, seed=seed + li, max_np=3)
        for opts in option_matrix(tier):
            why = judge(T, opts)
            nev += 1
            if why and not bad:
                bad = (dict(halos_per_superslab=list(layout), options={k: str(v) for k, v in opts.items()}), why)
        # single file / file list (incl. files that do not start at superslab 0)
        base = dict(cleaned=True, subsamples=dict(A=True, B=True, rvint=True, packedpid=True), passthrough=True, fields='all')
        n = len(layout)
        sels = [[i] for i in range(n)] + ([list(range(1, n))] if n > 2 else []) + ([[0, n - 1]] if n > 2 else [])
        for sel in sels:
            files = synth.halo_files(T, sel)
            for cleaned in (True, False):
                o = dict(base, cleaned=cleaned)
                why = judge(T, o, path=files if len(files) > 1 else files[0], slabs=sel)
                nev += 1
                if why and not bad:
                    bad = (dict(halos_per_superslab=list(layout), files=sel, cleaned=cleaned), f'files {sel}: {why}')
    finally:
        shutil.rmtree(root, ignore_errors=True)
    return nev, bad


def check(run):
    run.level = 'other'
    for sp in zipper_specs(run.tier):
        run.prove(sp, zipper_replayer)
    run.discharge()
    layouts = LAYOUTS if run.tier == 'quick' else LAYOUTS + [(2, 7, 1), (6,), (1, 0, 1, 0, 2)]
    res = run.pmap(_layout_worker, [(li, layout, run.seed, run.tier) for li, layout in enumerate(layouts)])
    nev = sum(r[0] for r in res)
    ncat = len(layouts)
    bad = next((r[1] for r in res if r[1]), None)
    samples = [dict(halos_per_superslab=list(layouts[0]), options=str(option_matrix(run.tier)[0]))]
    # a catalogue whose superslab numbers are not 0,1,2,... (directory with a missing slab)
    if not bad:
        root = tempfile.mkdtemp(prefix='c01_')
        try:
            for numbers in ([0, 2, 5], [0, 7, 1000]):          # four-digit superslab numbers: halo_info_1000.asdf next to halo_info_000.asdf
                T = synth.make_catalog(root + '/n%d' % numbers[-1], (3, 2, 4), seed=run.seed + 77, slab_numbers=numbers)
                for cleaned in (True, False):
                    for path in (None, synth.halo_files(T, [2]), synth.halo_files(T, [2, 0])):
                        sel = None if path is None else ([2] if len(path) == 1 else [2, 0])
                        why = judge(T, dict(cleaned=cleaned, subsamples=dict(A=True, B=True, rvint=True, packedpid=True), passthrough=True, fields='all'),
                                    path=None if path is None else (path if len(path) > 1 else path[0]), slabs=sel)
                        nev += 1
                        if why and not bad:
                            bad = (dict(slab_numbers=numbers, cleaned=cleaned, files=sel), f'superslab files {numbers}, selection {sel}: {why}')
        finally:
            shutil.rmtree(root, ignore_errors=True)
    if bad:
        run.bounded_violation('subsample slice does not hold the halo\'s own particles', bad[0], bad[1])
    run.add_bounded('real CompaSOHaloCatalog on synthetic catalogues vs independent slice oracle', nev, ncat,
                    'superslab layouts incl. empty slabs / empty catalogue / non-contiguous slab numbers; L0 gaps, zero-particle halos, cleaned-away halos, merged ranges; cleaned on/off x A/B/both x rvint/packedpid/pos/vel/pid x unpack_bits x passthrough x directory / single file / file subsets',
                    samples)
    run.extra['explanation'] = ('per-halo zipper kernels (_unpack_rv_subsamples, _unpack_pid_subsamples) proved on the real ASTs against the FUNCTIONAL contract '
                                '(row wo[h]+q = decode of raw record ro[h]+q, merged records after the originals, nothing else written) for every well-formed index table, '
                                'widest output selections, cleaned on/off; safety contracts for the other selections; new-offset arithmetic is the C19 cumsum contract; '
                                'the object-code layer of the loader (which file, which halo rows, A before B, index columns) is decided only by the bounded '
                                'run-time contract check on synthetic catalogues')
    run.assumptions += ['ASDF files written uncompressed (blosc stubbed); astropy/asdf object layer trusted',
                        'light-cone layout (_load_halo_lc_subsamples) not covered by this check']


def zipper_replayer(obl, model):
    """a failed zipper obligation is replayed through the real loader on the synthetic catalogues (passthrough + unpacked)"""
    for li, layout in enumerate([(4, 0, 5), (3,)]):
        root = tempfile.mkdtemp(prefix='c01r_')
        try:
            T = synth.make_catalog(root, layout, seed=li, max_np=3)
            for opts in option_matrix('quick'):
                why = judge(T, opts)
                if why:
                    return True, f'halos per superslab {list(layout)}, options {opts}: {why}'
        finally:
            shutil.rmtree(root, ignore_errors=True)
    return False, 'no case reproduced'


def replay_file(rec, repo):
    return zipper_replayer(None, None)[0]


# ======================================================================================================================
# deductive part: the per-halo read/write zipper kernels (real ASTs, E1) against the callee contracts of the C04 decoders
# ======================================================================================================================
from pyvc.engine import FnSpec, LoopSpec, CalleeSpec, SV, Arr, DT       # noqa: E402
from contracts import C04                                               # noqa: E402

CHC = 'abacusnbody/data/compaso_halo_catalog.py'

WELLFORMED = [
    'len(slab_read_lens) == len(slab_read_offsets)', 'len(slab_write_offsets) == len(slab_read_offsets) + 1',
    # read ranges lie inside the slab particle array (L0 gaps between them are allowed)
    'forall(h, 0, len(slab_read_offsets), 0 <= slab_read_offsets[h] and 0 <= slab_read_lens[h] and slab_read_offsets[h] + slab_read_lens[h] <= len({slab}))',
    # write offsets are the running sums of (original + merged) lengths (established by util.cumsum, C19) and stay inside the outputs
    'forall(h, 0, len(slab_read_offsets), slab_write_offsets[h + 1] == slab_write_offsets[h] + slab_read_lens[h] + {clen})',
    'forall((a, b), 0 <= a and a <= b and b <= len(slab_read_offsets), slab_write_offsets[a] <= slab_write_offsets[b])',
    '0 <= slab_write_offsets[0]',
]
CLEAN_WF = ['len(clean_slab_read_offsets) == len(slab_read_offsets)', 'len(clean_slab_read_lens) == len(slab_read_offsets)',
            'forall(h, 0, len(slab_read_offsets), 0 <= clean_slab_read_offsets[h] and 0 <= clean_slab_read_lens[h] and '
            'clean_slab_read_offsets[h] + clean_slab_read_lens[h] <= len({cslab}))']


# value of output column `o` for the particle stored in source row {r} of the raw array {slab} (column {c} for 3-vectors)
VALUES = dict(
    rv=dict(pos=(3, 'RVPOS({slab}[{r}, {c}], boxsize)'), vel=(3, 'RVVEL({slab}[{r}, {c}])'), rvint=(3, '{slab}[{r}, {c}]')),
    pid=dict(pid=(0, 'PID({slab}[{r}])'), tagged=(0, 'TAG({slab}[{r}])'), density=(0, 'DENS({slab}[{r}])'),
             lagr_pos=(3, 'LPOS{c}({slab}[{r}], boxsize, ppd)'), lagr_idx=(3, 'LIDX{c}({slab}[{r}])'), packedpid=(0, '{slab}[{r}]')))
KINDS = dict(rv=dict(fn='_unpack_rv_subsamples', slab='slab_rvint', cslab='clean_slab_rvint', raw='i32[:,3]!ro', first='halo_rvint = ',
                     second='if clean_slab_rvint is not None', callee={'..bitpacked._unpack_rvint': C04.RV_CALLEE},
                     types=dict(pos='real[:,3]', vel='real[:,3]', rvint='i32[:,3]')),
             pid=dict(fn='_unpack_pid_subsamples', slab='slab_packedpid', cslab='clean_slab_packedpid', raw='u64[:]!ro', first='halo_packedpid = ',
                      second='if clean_slab_packedpid is not None', callee={'..bitpacked._unpack_pids': C04.PID_CALLEE},
                      types=dict(pid='i64[:]', lagr_pos='real[:,3]', tagged='u8[:]', density='real[:]', lagr_idx='i16[:,3]', packedpid='u64[:]')))


def spec_zipper(kind, outputs, cleaned, functional=False):
    """The per-halo read/write zipper kernels under contract.

    functional=False: safety only (every subscript and slice store in bounds, shapes agree, callee preconditions of the decoders
    hold) under the well-formedness precondition (read ranges inside the raw arrays, write offsets = running sums of original +
    merged lengths).  functional=True adds the C01 postcondition: for every halo h of the file and every q, output row
    wo[h] + q (q < original count) is the decode of raw record ro[h] + q of the slab file, row wo[h] + len[h] + q is the decode of
    record cro[h] + q of the cleaning file, and rows outside [wo[0], wo[H]) are untouched (other files' slices stay intact).
    The two-variable invariant is re-established for a fresh (halo, row) pair in small steps (forall_intro), with the quantified
    hypotheses instantiated at the fresh constants by the engine."""
    K = KINDS[kind]
    slab, cslab = K['slab'], K['cslab']
    args = dict(slab_read_offsets='int[:]!ro', slab_read_lens='int[:]!ro', slab_write_offsets='int[:]!ro', boxsize='real',
                clean_slab_read_offsets='int[:]!ro' if cleaned else None, clean_slab_read_lens='int[:]!ro' if cleaned else None)
    args[slab] = K['raw']
    args[cslab] = K['raw'] if cleaned else None
    for o, t in K['types'].items():
        args[o] = t if o in outputs else None
    if kind == 'pid':
        args['ppd'] = 'int'
    clen = 'clean_slab_read_lens[h]' if cleaned else '0'
    req = [r.format(slab=slab, clen=clen) for r in WELLFORMED] + (['ppd >= 1'] if kind == 'pid' else [])
    if cleaned:
        req += [r.format(cslab=cslab) for r in CLEAN_WF]
    for o in sorted(outputs):
        req.append(f'slab_write_offsets[len(slab_read_offsets)] <= len({o})')
    H = 'len(slab_read_offsets)'
    tag = f'[{"+".join(sorted(outputs))},cleaned={cleaned}]'
    if not functional:
        return FnSpec(CHC, 'CompaSOHaloCatalog.' + K['fn'], prop='C01', name=K['fn'] + '.safety' + tag, mode='bv', args=args, ghosts=C04.ghosts,
                      requires=req, callees=K['callee'], loops={0: LoopSpec(invariant=['0 <= i and i <= ' + H])})

    def cell(o, row, c):
        return f'{o}[{row}, {c}]' if VALUES[kind][o][0] else f'{o}[{row}]'

    def rows(upto):
        cl = []
        for o in sorted(outputs):
            ncol, fmt = VALUES[kind][o]
            for c in (range(3) if ncol else [0]):
                cl.append(f'forall((h, q), 0 <= h and h < {upto} and 0 <= q and q < slab_read_lens[h], ' +
                          cell(o, 'slab_write_offsets[h] + q', c) + ' == ' + fmt.format(slab=slab, r='slab_read_offsets[h] + q', c=c) + ')')
                if cleaned:
                    cl.append(f'forall((h, q), 0 <= h and h < {upto} and 0 <= q and q < clean_slab_read_lens[h], ' +
                              cell(o, 'slab_write_offsets[h] + slab_read_lens[h] + q', c) + ' == ' +
                              fmt.format(slab=cslab, r='clean_slab_read_offsets[h] + q', c=c) + ')')
        # frame: rows outside [wo[0], wo[upto]) keep their contents (other files' slices stay intact)
        for o in sorted(outputs):
            if VALUES[kind][o][0]:
                cl.append(f'forall((r, c), 0 <= r and r < len({o}) and 0 <= c and c < 3 and (r < slab_write_offsets[0] or r >= slab_write_offsets[{upto}]), '
                          f'{o}[r, c] == old({o}[r, c]))')
            else:
                cl.append(f'forall((r,), 0 <= r and r < len({o}) and (r < slab_write_offsets[0] or r >= slab_write_offsets[{upto}]), {o}[r] == old({o}[r]))')
        return cl

    def per_halo_hints(idx, second):
        """the new halo's rows alone, each proved for a fresh row number q (skolem constant) from the callee contract and then
        generalised; `second` selects the merged-particle segment"""
        out = []
        for cl in rows('i'):
            if not cl.startswith('forall((h, q)'):
                continue
            if ('clean_slab_read_lens[h],' in cl) != second:
                continue
            body = cl[len('forall((h, q), 0 <= h and h < i and '):]
            out.append('forall_intro forall((q,), ' + body.replace('[h]', f'[{idx}]'))
        return out
    # intermediate steps about the fresh (h, q): the halo's write window and its position relative to the current halo's
    steps = (f'slab_write_offsets[h + 1] == slab_write_offsets[h] + slab_read_lens[h] + {clen} ;; '
             'implies(h < i - 1, slab_write_offsets[h + 1] <= slab_write_offsets[i - 1]) ;; slab_write_offsets[0] <= slab_write_offsets[h]')

    def two_var(cl):
        """a two-variable clause for a fresh (halo, row) pair, in small steps that each need one instantiation: the halo's write
        window; an earlier halo's row held the value when the iteration started (instance of the assumed invariant) and was not
        touched since (callee frames); the current halo's row is an instance of the per-halo hint"""
        body = cl[cl.index('], ') + 3:-1]
        lhs, rhs = body.split(' == ', 1)
        return ('forall_intro ' + cl + ' using ' + steps + f' ;; inv_instance {cl} ;; implies(h < i - 1, iter_old({lhs}) == {rhs}) ;; '
                f'implies(h < i - 1, {lhs} == iter_old({lhs})) ;; implies(h == i - 1, {lhs} == {rhs})')

    # ground instances of the well-formedness precondition for the current halo: with them every slice bound is decided by the
    # quantifier-free part of the path condition, so the views carry plain offsets instead of clamp expressions
    ci = 'clean_slab_read_lens[i]' if cleaned else '0'
    ground = [f'slab_write_offsets[i + 1] == slab_write_offsets[i] + slab_read_lens[i] + {ci}',
              f'0 <= slab_write_offsets[0] and slab_write_offsets[0] <= slab_write_offsets[i] and slab_write_offsets[i + 1] <= slab_write_offsets[{H}]',
              f'0 <= slab_read_offsets[i] and 0 <= slab_read_lens[i] and slab_read_offsets[i] + slab_read_lens[i] <= len({slab})']
    if cleaned:
        ground.append(f'0 <= clean_slab_read_offsets[i] and 0 <= clean_slab_read_lens[i] and clean_slab_read_offsets[i] + clean_slab_read_lens[i] <= len({cslab})')
    return FnSpec(CHC, 'CompaSOHaloCatalog.' + K['fn'], prop='C01', name=K['fn'] + tag, mode='bv', args=args, ghosts=C04.ghosts, auto_skolem=True,
                  requires=req, ensures=rows(H), frame=sorted(outputs), callees=K['callee'],
                  loops={0: LoopSpec(invariant=['0 <= i and i <= ' + H] + rows('i'),
                                     # original segment right after the first decoder call, then (end of body) again - the second call's
                                     # frame is the merged segment only - followed by the merged segment
                                     body_asserts={K['first']: ground, K['second']: per_halo_hints('i', False)},
                                     asserts=per_halo_hints('i - 1', False) + (per_halo_hints('i - 1', True) if cleaned else []) +
                                     [two_var(cl) for cl in rows('i') if cl.startswith('forall((h, q)')])})


def spec_zipper_rv(outputs, cleaned, functional=False):
    return spec_zipper('rv', outputs, cleaned, functional)


def spec_zipper_pid(outputs, cleaned, functional=False):
    return spec_zipper('pid', outputs, cleaned, functional)


def zipper_specs(tier):
    out = []
    rv_sets = ({'pos', 'vel'}, {'rvint'}, {'pos'}, {'vel', 'rvint', 'pos'})
    pid_sets = ({'pid'}, {'packedpid'}, {'pid', 'lagr_pos', 'tagged', 'density', 'lagr_idx'}, {'pid', 'packedpid', 'lagr_idx'})
    for cleaned in (True, False):
        # functional contract (C01 postcondition) on the widest output selections, plus the narrower ones in the thorough tier;
        # safety-only contracts for the remaining selections
        fun_rv = rv_sets if tier == 'thorough' else rv_sets[3:]
        fun_pid = pid_sets if tier == 'thorough' else pid_sets[2:]
        for outs in rv_sets:
            out.append(spec_zipper_rv(outs, cleaned, functional=outs in fun_rv))
        for outs in pid_sets:
            out.append(spec_zipper_pid(outs, cleaned, functional=outs in fun_pid))
    return out
