"""C15 - pack9 streams decode one particle per record relative to its cell header.

Spec (from the property statement and the module's format description): a record is 9 bytes = six 12-bit fields
f0..f5 (nibble order: f0 = c0:c1.lo, f1 = c1.hi:c2, f2 = c3:c4.lo, f3 = c4.hi:c5, f4 = c6:c7.lo, f5 = c7.hi:c8),
biased shorts s_m = f_m - 2048.  A record whose first byte is 0xFF is a header (cpd = s1+2000, velocity scale
vs = s2+2000, cell = (s3,s4,s5)+2000) and yields no particle; any other record r is particle number rank(r)
(non-header records before r) with pos_c = (cell_c + 0.5 + s_c/2000) * box/cpd - box/2 and
vel_c = s_{3+c} * (vs/2000) * velz/cpd, header = the most recent one before r.
"""
import itertools
import random

import numpy as np
import z3

from pyvc.engine import FnSpec, LoopSpec, CalleeSpec, SV, Arr, St, DT

FILE = 'abacusnbody/data/pack9.py'
R = z3.ToReal


def field_bv(bytes9, m):
    """12-bit field m of a record given as a list of nine 8-bit z3 terms"""
    c = bytes9
    lo = lambda x: z3.Extract(3, 0, x)      # noqa: E731
    hi = lambda x: z3.Extract(7, 4, x)      # noqa: E731
    return [z3.Concat(c[0], lo(c[1])), z3.Concat(hi(c[1]), c[2]), z3.Concat(c[3], lo(c[4])),
            z3.Concat(hi(c[4]), c[5]), z3.Concat(c[6], lo(c[7])), z3.Concat(hi(c[7]), c[8])][m]


def short_bv(bytes9, m):
    return z3.ZeroExt(4, field_bv(bytes9, m)) - z3.BitVecVal(2048, 16)


def ghosts_expand(g):
    eng, entry = g.eng, g.entry

    def SHORT(c, m):
        bs = [eng.sel(entry, c, [z3.IntVal(k)]) for k in range(9)]
        return SV(short_bv(bs, int(m)), 'i16')
    g.fn('SHORT', SHORT)


def ghosts_stream(g):
    eng, entry = g.eng, g.entry
    ghosts_expand(g)
    data = g.arr_term('data')
    box = eng.toreal(eng.tosv(g.arg('boxsize'))).t
    velz = eng.toreal(eng.tosv(g.arg('velzspace_to_kms'))).t

    def row(r):
        return [z3.Select(z3.Select(data, r), k) for k in range(9)]
    HDR = g.define('HDR', ['int'], 'bool', lambda r: SV(z3.Select(z3.Select(data, r.t), 0) == z3.BitVecVal(0xFF, 8), 'bool'))
    F = [g.define(f'F{m}', ['int'], 'int', lambda r, m=m: SV(z3.BV2Int(short_bv(row(r.t), m), True), 'int')) for m in range(6)]
    rank = z3.Function('rank', z3.IntSort(), z3.IntSort())
    LH = z3.Function('LH', z3.IntSort(), z3.IntSort())
    k = z3.Int('k')
    g.axiom(rank(0) == 0)
    g.axiom(LH(0) == -1)
    g.axiom(z3.ForAll([k], z3.Implies(k >= 0, rank(k + 1) == rank(k) + z3.If(HDR(k), 0, 1)), patterns=[rank(k + 1)]))
    g.axiom(z3.ForAll([k], z3.Implies(k >= 0, LH(k + 1) == z3.If(HDR(k), k, LH(k))), patterns=[LH(k + 1)]))
    a, b = z3.Ints('ra rb')
    # lemma (proved by induction in check(): mono_lemma): rank is non-decreasing
    g.axiom(z3.ForAll([a, b], z3.Implies(z3.And(0 <= a, a <= b), rank(a) <= rank(b)), patterns=[z3.MultiPattern(rank(a), rank(b))]))
    g.axiom(z3.ForAll([a], z3.Implies(0 <= a, z3.And(0 <= rank(a), rank(a) <= a)), patterns=[rank(a)]))     # lemma rank_bound
    g.fn('rank', lambda x: SV(rank(eng.tosv(x).t), 'int'))
    g.fn('LH', lambda x: SV(LH(eng.tosv(x).t), 'int'))
    g.unfolder('rank', lambda x: [z3.Implies(x.t >= 0, rank(x.t + 1) == rank(x.t) + z3.If(HDR(x.t), 0, 1))])
    g.unfolder('LH', lambda x: [z3.Implies(x.t >= 0, LH(x.t + 1) == z3.If(HDR(x.t), x.t, LH(x.t)))])

    def cpd(h):
        return R(F[1](h)) + 2000
    # header state as the property describes it
    g.define('PSC', ['int'], 'real', lambda h: SV(box / cpd(h.t) / 2000, 'real'))
    g.define('VSC', ['int'], 'real', lambda h: SV((R(F[2](h.t)) + 2000) / 2000 * velz / cpd(h.t), 'real'))
    for c in range(3):
        g.define(f'CX{c}', ['int'], 'real',
                 lambda h, c=c: SV((R(F[3 + c](h.t)) + 2000 + z3.RealVal('1/2')) * (box / cpd(h.t)) - box / 2, 'real'))
        g.define(f'POS{c}', ['int'], 'real',
                 lambda r, c=c: SV((R(F[3 + c](LH(r.t))) + 2000 + z3.RealVal('1/2') + R(F[c](r.t)) / 2000) * (box / cpd(LH(r.t))) - box / 2, 'real'))
        g.define(f'VEL{c}', ['int'], 'real',
                 lambda r, c=c: SV(R(F[3 + c](r.t)) * ((R(F[2](LH(r.t))) + 2000) / 2000) * velz / cpd(LH(r.t)), 'real'))


EXPAND_ENS = [f's[{m}] == SHORT(c, {m})' for m in range(6)]
EXPAND_CALLEE = CalleeSpec(['c', 's'], requires=['len(c) == 9', 'len(s) == 6'], ensures=EXPAND_ENS, frame=dict(s=None))


def spec_expand():
    return FnSpec(FILE, '_expand_to_short', prop='C15', mode='bv', name='_expand_to_short',
                  args=dict(c='u8[9]!ro', s='i16[6]'), ghosts=ghosts_expand, ensures=EXPAND_ENS, frame=['s'])


def out_clauses(upto):
    cl = []
    for c in range(3):
        cl.append(f'implies(posout is not None, forall(r, 0, {upto}, implies(not HDR(r), posout[rank(r), {c}] == POS{c}(r))))')
    for c in range(3):
        cl.append(f'implies(velout is not None, forall(r, 0, {upto}, implies(not HDR(r), velout[rank(r), {c}] == VEL{c}(r))))')
    return cl


STREAM_REQ = [
    'implies(posout is not None, len(posout) >= rank(len(data)))',     # weakest: one row per particle, not per record
    'implies(velout is not None, len(velout) >= rank(len(data)))',
    'implies(len(data) > 0, HDR(0))',                                        # a stream starts with a cell header
    'forall(r, 0, len(data), implies(HDR(r), F1(r) + 2000 >= 1))',           # headers carry cells-per-dimension >= 1
]
STREAM_ENS = ['result == rank(len(data))'] + out_clauses('len(data)')

STATE_INV = ['implies(i > 0, 0 <= LH(i) and LH(i) < i and HDR(LH(i)) and F1(LH(i)) + 2000 >= 1)',
             'implies(i > 0, pscale == PSC(LH(i)))', 'implies(i > 0, vscale == VSC(LH(i)))',
             'implies(i > 0, cellx == CX0(LH(i)))', 'implies(i > 0, celly == CX1(LH(i)))',
             'implies(i > 0, cellz == CX2(LH(i)))']
RANK_INV = ['w == rank(i)', '0 <= w and w <= i', 'forall(r, 0, i, implies(not HDR(r), rank(r) < w))']


def stream_hints():
    h = ['unfold rank(i - 1)', 'unfold LH(i - 1)', 'mention HDR(i - 1)'] + [f'mention F{m}(i - 1)' for m in range(6)]
    for c in range(3):
        h.append(f'implies(posout is not None and not HDR(i - 1), posout[rank(i - 1), {c}] == POS{c}(i - 1))')
        h.append(f'implies(velout is not None and not HDR(i - 1), velout[rank(i - 1), {c}] == VEL{c}(i - 1))')
    return h


def spec_stream(pos, vel):
    return FnSpec(FILE, '_unpack_pack9', prop='C15', mode='bv', name=f'_unpack_pack9[pos={pos},vel={vel}]',
                  args=dict(data='u8[:,9]!ro', boxsize='real', velzspace_to_kms='real',
                            posout='real[:,3]' if pos else None, velout='real[:,3]' if vel else None,
                            dtype=DT('real', 'float64')),
                  ghosts=ghosts_stream, requires=STREAM_REQ, ensures=STREAM_ENS, frame=['posout', 'velout'],
                  callees={'_expand_to_short': EXPAND_CALLEE},
                  loops={0: LoopSpec(invariant=RANK_INV + STATE_INV + out_clauses('i'), asserts=stream_hints(),
                                     modifies=['sh'],
                                     body_asserts={'if p9[0] ==': ['mention HDR(i)'] + [f'mention F{m}(i)' for m in range(6)] + [
                                         'unfold rank(i)', 'unfold LH(i)',
                                         'implies(HDR(i), F1(i) + 2000 >= 1)'] + [
                                         f'real(sh[{m}]) == F{m}(i)' for m in range(6)] + [
                                         'real(sh[1] + 2000) == F1(i) + 2000', 'real(sh[2] + 2000) == F2(i) + 2000']})})


STREAM_CALLEE = CalleeSpec(['data', 'boxsize', 'velzspace_to_kms', 'posout', 'velout', 'dtype'], requires=STREAM_REQ,
                           ensures=STREAM_ENS + ['0 <= result and result <= len(data)'],
                           frame=dict(posout=None, velout=None), result='int')


def spec_wrapper(pm, vm):
    def arg(m):
        return {'alloc': None, 'skip': False, 'given': 'real[:,3]'}[m]

    def ens(m, k, out, fn):
        if m == 'skip':
            return [f'result[{k}] == 0']
        if m == 'alloc':
            return [f'len(result[{k}]) == rank(len(data))'] + [
                f'forall(r, 0, len(data), implies(not HDR(r), result[{k}][rank(r), {c}] == {fn}{c}(r)))' for c in range(3)]
        return [f'result[{k}] == rank(len(data))'] + [
            f'forall(r, 0, len(data), implies(not HDR(r), {out}[rank(r), {c}] == {fn}{c}(r)))' for c in range(3)]
    req = [r for r in STREAM_REQ if 'posout' not in r and 'velout' not in r]
    if pm == 'given':
        req.append('len(posout) >= rank(len(data))')
    if vm == 'given':
        req.append('len(velout) >= rank(len(data))')
    return FnSpec(FILE, 'unpack_pack9', prop='C15', mode='bv', name=f'unpack_pack9[pos={pm},vel={vm}]',
                  args=dict(data='u8[:,9]!ro', boxsize='real', velzspace_to_kms='real', posout=arg(pm), velout=arg(vm)),
                  ghosts=ghosts_stream, requires=req, callees={'_unpack_pack9': STREAM_CALLEE},
                  ensures=ens(pm, 0, 'posout', 'POS') + ens(vm, 1, 'velout', 'VEL'), frame=['posout', 'velout'],
                  post_hints=['forall(r, 0, len(data), rank(r) <= rank(len(data)))'] if False else [])


# ------------------------------------------------------------------ independent reference (plain python)
def ref_fields(rec):
    c = [int(x) for x in rec]
    f = [(c[0] << 4) | (c[1] & 15), ((c[1] >> 4) << 8) | c[2], (c[3] << 4) | (c[4] & 15), ((c[4] >> 4) << 8) | c[5],
         (c[6] << 4) | (c[7] & 15), ((c[7] >> 4) << 8) | c[8]]
    return [x - 2048 for x in f]


def ref_decode(stream, box, velz):
    pos, vel = [], []
    hdr = None
    for rec in stream:
        s = ref_fields(rec)
        if int(rec[0]) == 0xFF:
            hdr = (s[1] + 2000, s[2] + 2000, [s[3] + 2000, s[4] + 2000, s[5] + 2000])
            continue
        cpd, vs, cell = hdr
        pos.append([(cell[c] + 0.5 + s[c] / 2000.0) * box / cpd - box / 2 for c in range(3)])
        vel.append([s[3 + c] * (vs / 2000.0) * velz / cpd for c in range(3)])
    return pos, vel


def enc_fields(f):
    """six 12-bit unsigned fields -> 9 bytes (inverse of the nibble layout)"""
    return [f[0] >> 4, ((f[0] & 15)) | ((f[1] >> 8) << 4), f[1] & 255, f[2] >> 4, (f[2] & 15) | ((f[3] >> 8) << 4), f[3] & 255,
            f[4] >> 4, (f[4] & 15) | ((f[5] >> 8) << 4), f[5] & 255]


def header(cpd, vs, cell):
    # first byte 0xFF <=> f0 in [0xFF0, 0xFFF]
    return enc_fields([0xFF0 + (cell[0] & 15), cpd - 2000 + 2048, vs - 2000 + 2048] + [c - 2000 + 2048 for c in cell])


def judge(stream, box, velz, fdt=np.float32, modes=None):
    from abacusnbody.data.pack9 import unpack_pack9
    data = np.array(stream, dtype=np.uint8).reshape(-1, 9)
    N = len(data)
    rpos, rvel = ref_decode(data, box, velz)
    npart = len(rpos)
    tol = 3e-6 if fdt == np.float32 else 1e-11
    other = np.float64 if fdt == np.float32 else np.float32
    tol32 = 3e-6
    for pm, vm in (modes or (list(itertools.product(('alloc', 'skip', 'given', 'tight'), repeat=2)) + [('other', 'other'), ('other', 'alloc'), ('given', 'other'),
                                                                                                  ('strided', 'strided'), ('skip', 'strided')])):
        # 'other': a preallocated buffer whose dtype is not float_dtype - a supplied array must be filled itself, whatever its dtype
        # 'strided': non-contiguous supplied outputs (halves of an interleaved (N, 6) buffer / every second row of a taller array)
        inter = np.full((N, 6), np.nan, dtype=fdt)
        tall = np.full((2 * N, 3), np.nan, dtype=fdt)
        po = {'alloc': None, 'skip': False, 'given': np.full((N, 3), np.nan, dtype=fdt), 'other': np.full((N, 3), np.nan, dtype=other),
              'tight': np.full((npart, 3), np.nan, dtype=fdt), 'strided': inter[:, :3]}[pm]         # tight: exactly one row per particle
        vo = {'alloc': None, 'skip': False, 'given': np.full((N, 3), np.nan, dtype=fdt), 'other': np.full((N, 3), np.nan, dtype=other),
              'tight': np.full((npart, 3), np.nan, dtype=fdt), 'strided': tall[::2]}[vm]
        try:
            r = unpack_pack9(data, box, velz, float_dtype=fdt, posout=po, velout=vo)
        except IndexError as ex:
            return f'mode pos={pm} vel={vm}: out-of-bounds access {ex}'
        for m, k, ref, given in ((pm, 0, rpos, po), (vm, 1, rvel, vo)):
            if m == 'skip':
                if r[k] != 0:
                    return f'mode pos={pm} vel={vm}: skipped output reported {r[k]}'
                continue
            out = r[k] if m == 'alloc' else given
            cnt = len(r[k]) if m == 'alloc' else r[k]
            if cnt != npart:
                return f'mode pos={pm} vel={vm}: {cnt} particles, expected {npart} ({N} records)'
            scale = box if k == 0 else max(1.0, max((abs(x) for row in ref for x in row), default=1.0))
            for i in range(npart):
                for c in range(3):
                    if not abs(float(out[i, c]) - ref[i][c]) <= (tol32 if m == 'other' else tol) * max(scale, 1.0, abs(ref[i][c])):
                        return f'mode pos={pm} vel={vm}: particle {i} comp {c} {"pos" if k == 0 else "vel"}={out[i, c]} expected {ref[i][c]}'
    return None


def battery(seed, n):
    rnd = random.Random(seed)
    streams = [[]]
    # every low-nibble value in a header's second byte; headers adjacent / at the end; empty cells
    for nib in range(16):
        h = header(1701, 3000 + nib, [5 + nib, 1700, 850])
        h[1] = (h[1] & 0xF0) | nib
        streams.append([h, enc_fields([rnd.randrange(4096) for _ in range(6)]), h, h,
                        enc_fields([0, 4095, 2048, 2047, 1, 4094]), header(2, 2000, [0, 1, 1]),
                        enc_fields([rnd.randrange(0xFF0) for _ in range(6)])])
    for _ in range(n):
        s = [header(rnd.choice([1, 2, 405, 1701, 4047]), rnd.randrange(1, 4047), [rnd.randrange(0, 1701) for _ in range(3)])]
        for _ in range(rnd.randrange(0, 9)):
            if rnd.random() < 0.25:
                s.append(header(rnd.choice([1, 2, 405, 1701]), rnd.randrange(1, 4047), [rnd.randrange(0, 405) for _ in range(3)]))
            else:
                f = [rnd.randrange(4096) for _ in range(6)]
                f[0] = min(f[0], 0xFEF)       # a particle's first byte is never 0xFF
                s.append(enc_fields(f))
        streams.append(s)
    # records whose bytes are all 0x00 (a legitimate particle: every field 0) or all equal, single-bit records, next to headers
    for cpd in (4, 5, 1701):
        h = header(cpd, 2500, [1, cpd - 1, cpd // 2])
        z = [0] * 9
        streams.append([h, z, enc_fields([1, 2, 3, 4, 5, 6]), z, z, h, z])
        streams.append([h] + [[0] * k + [1 << b] + [0] * (8 - k) for k in range(9) for b in (0, 7)] + [[0x7F] * 9, [0xFE] * 9])
    return streams


def replayer(obl, model):
    if model is not None:
        rows = model.get('data') or model.get('c')
        stream = []
        if isinstance(rows, list) and rows and isinstance(rows[0], list):
            n = max(1, min(int(model.get('len_data_0', 2) or 2), len(rows)))
            for rrow in rows[:n]:
                stream.append([int(x) & 255 for x in (rrow + [0] * 9)[:9]] if len(rrow) >= 9 else
                              [int(x) & 255 for x in rrow] + [0] * (9 - len(rrow)))
        elif isinstance(rows, list):
            stream = [header(100, 2000, [1, 2, 3]), [int(x) & 255 for x in (rows + [0] * 9)[:9]]]
            if stream[1][0] == 0xFF:
                stream = [stream[1], [1] * 9]
        if stream and stream[0][0] != 0xFF:
            stream = [header(100, 2000, [1, 2, 3])] + stream
        # arrays are probed for 4 columns only in 2-D models; complete missing columns with zeros
        streams = [stream] if stream else []
    else:
        streams = battery(3, 60)
    for s in streams:
        if any((ref_fields(r)[1] + 2000) < 1 for r in s if r[0] == 0xFF):
            continue
        for fdt in (np.float32, np.float64):
            why = judge(s, 2000.0, 1250.0, fdt)
            if why:
                return True, f'unpack_pack9 stream={s[:6]} box=2000 velz=1250 {fdt.__name__}: {why}'
    return False, 'no case reproduced'


def bounded(run):
    n = 150 if run.tier == 'quick' else 3000
    streams = battery(run.seed + 1, n)
    nev = 0
    for s in streams:
        for fdt in (np.float32, np.float64):
            for box, velz in ((2000.0, 1250.0), (1.0, 1.0)):
                why = judge(s, box, velz, fdt)
                nev += 16
                if why:
                    run.bounded_violation('unpack_pack9 stream sweep', dict(stream=s, box=box, velz=velz, dtype=fdt.__name__), why)
                    return
    # _expand_to_short against the nibble layout on all values of each byte pair (compiled kernel)
    from abacusnbody.data.pack9 import _expand_to_short
    rnd = random.Random(run.seed)
    for _ in range(2000 if run.tier == 'quick' else 50000):
        c = np.array([rnd.randrange(256) for _ in range(9)], dtype=np.uint8)
        sh = np.empty(6, dtype=np.int16)
        _expand_to_short(c, sh)
        nev += 1
        if sh.tolist() != ref_fields(c):
            run.bounded_violation('_expand_to_short', dict(record=c.tolist()), f'{sh.tolist()} expected {ref_fields(c)}')
            return
    run.add_bounded('compiled unpack_pack9 / _expand_to_short vs independent decoder', nev, len(streams),
                    'seeded random streams (0-9 records, random header positions, adjacent/trailing headers, every header low nibble), 9 output modes, float32/64, 2 (box, velz) pairs',
                    [dict(stream=streams[1][:3])])


def quantum_lemma(run):
    """a position x inside cell `cell` (0 <= x/csize - cell < 1) encoded as s = round((x/csize - cell - 1/2)*2000) decodes
    to within one quantum q = csize/2000:  |(cell + 1/2 + s/2000)*csize - x| <= q/2"""
    x, cs, cell = z3.Reals('x cs cell')
    s = z3.Int('s')
    u = (x / cs - cell - z3.RealVal('1/2')) * 2000
    nearest = z3.And(R(s) - z3.RealVal('1/2') <= u, u <= R(s) + z3.RealVal('1/2'))
    err = (cell + z3.RealVal('1/2') + R(s) / 2000) * cs - x
    run.lemma('lemma.pack9_quantum[decode(encode(x)) within half a quantum]', [cs > 0, nearest],
              z3.And(err <= cs / 4000, -err <= cs / 4000))


def mono_lemma(run):
    """rank non-decreasing, by induction on b from the recurrence alone"""
    rank = z3.Function('rank', z3.IntSort(), z3.IntSort())
    H = z3.Function('HDR', z3.IntSort(), z3.BoolSort())
    a, b, k = z3.Ints('a b k')
    rec = z3.ForAll([k], z3.Implies(k >= 0, rank(k + 1) == rank(k) + z3.If(H(k), 0, 1)), patterns=[rank(k + 1)])
    P = lambda bb: z3.ForAll([a], z3.Implies(z3.And(0 <= a, a <= bb), rank(a) <= rank(bb)))      # noqa: E731
    run.lemma('lemma.rank_mono.base', [rec, rank(0) == 0], P(z3.IntVal(0)))
    run.lemma('lemma.rank_mono.step', [rec, b >= 0, P(b)], P(b + 1))
    Q = lambda bb: z3.And(0 <= rank(bb), rank(bb) <= bb)      # noqa: E731
    run.lemma('lemma.rank_bound.base', [rec, rank(0) == 0], Q(z3.IntVal(0)))
    run.lemma('lemma.rank_bound.step', [rec, b >= 0, Q(b)], Q(b + 1))


def check(run):
    run.level = 'proof'
    mono_lemma(run)
    run.prove(spec_expand(), replayer)
    for pos, vel in itertools.product([True, False], repeat=2):
        run.prove(spec_stream(pos, vel), replayer)
    for pm, vm in itertools.product(('alloc', 'skip', 'given'), repeat=2):
        run.prove(spec_wrapper(pm, vm), replayer)
    quantum_lemma(run)
    run.discharge()
    bounded(run)
    run.assumptions += [
        'floats are reals (dtype casts are the identity); float32 rounding only in the bounded check',
        'precondition: the stream starts with a header and headers carry cpd >= 1 (the code does not reject particles before the first header: they decode with NaN state - noted, outside the property)',
        'the numeric constants 2048/2000/0.0005 are the pack9 format as documented in the module (no second description in the repository)',
        'numba typing: uint8 op literal -> int64, int16 stores truncate (validated by the compiled-kernel cross-check on every run)',
        'int64 counters are mathematical integers (no overflow below 2^63)',
    ]
    run.trusted += ['z3 bv2int/int-blasting, nlsat for the header/particle real identities']


def replay_file(rec, repo):
    return replayer(None, rec.get('model'))[0] or replayer(None, None)[0]
