"""C14, deductive part: BloscCompressor.decompress (the frame-reassembly state machine) under contract.

Stream well-formedness (precondition): the concatenated chunks are NF >= 0 frames, frame k = 4-byte big-endian length LEN(k) > 0
followed by LEN(k) payload bytes: FR(0) = 0, FR(k+1) = FR(k) + 4 + LEN(k), FR(NF) = len(stream).  Chunking: ANY sequence of
NCHUNKS >= 0 consecutive chunks (lengths >= 0) tiling the stream: chunk k = stream[CUT(k) : CUT(k+1)] with CUT monotone - CUT does
not occur in the postcondition, which is what "independent of how the stream is chunked" means:

    blosc.decompress_ptr is called exactly once per frame, in order, the k-th call with the LEN(k) payload bytes of frame k and
    destination out + OUTOFF(k), where OUTOFF(k) is the sum of the values returned by the earlier calls; the function returns OUTOFF(NF).

The "exactly once, in order" part is carried by the ghost counter ghost_n: the callee contract of decompress_ptr REQUIRES that its
buffer is the payload of frame ghost_n and its address out + OUTOFF(ghost_n), and increments ghost_n; the postcondition is
ghost_n == NF.  The state (_size, _partial_len, _buffer, _pos) is related to the absolute stream position by the three-mode invariant
below; `_buffer` changes kind (None / array) between iterations: LoopSpec.kinds verifies each loop head once per kind.
"""
import z3

from pyvc.engine import FnSpec, LoopSpec, CalleeSpec, SV, I

FILE = 'abacusnbody/data/asdf.py'
FRF = z3.Function('FR', z3.IntSort(), z3.IntSort())
OUTF = z3.Function('OUTOFF', z3.IntSort(), z3.IntSort())
NOUTF = z3.Function('NOUT', z3.IntSort(), z3.IntSort())
NF = z3.Int('NF')


def be32(arr, p):
    S = lambda k: z3.Select(arr, p + k)      # noqa: E731
    return S(0) * 16777216 + S(1) * 65536 + S(2) * 256 + S(3)


def ghosts(g):
    eng = g.eng
    stream = g.arr_term('ghost_stream')
    L = g.arg('ghost_stream').shape[0]
    k, a, b = z3.Ints('fk fa fb')
    LEN = lambda kk: be32(stream, FRF(kk))      # noqa: E731
    g.fn('FR', lambda kk: SV(FRF(z3.simplify(I(kk))), 'int'))
    g.fn('LEN', lambda kk: SV(LEN(z3.simplify(I(kk))), 'int'))
    g.fn('OUTOFF', lambda kk: SV(OUTF(z3.simplify(I(kk))), 'int'))
    g.fn('NOUT', lambda kk: SV(NOUTF(z3.simplify(I(kk))), 'int'))
    eng.ghost['NF'] = SV(NF, 'int')
    # well-formed stream of NF frames (precondition on the input, stated as defining axioms of FR)
    g.axiom(NF >= 0)
    g.axiom(FRF(0) == 0)
    g.axiom(FRF(NF) == L)
    g.axiom(z3.ForAll([k], z3.Implies(z3.And(0 <= k, k < NF), z3.And(LEN(k) > 0, FRF(k + 1) == FRF(k) + 4 + LEN(k))), patterns=[FRF(k)]))
    # lemma FR_mono (proved by induction in lemmas()): later frames start after earlier frames end
    g.axiom(z3.ForAll([a, b], z3.Implies(z3.And(0 <= a, a < b, b <= NF), FRF(a) + 4 + LEN(a) <= FRF(b)), patterns=[z3.MultiPattern(FRF(a), FRF(b))]))
    g.axiom(OUTF(0) == 0)
    g.axiom(z3.ForAll([k], z3.Implies(k >= 0, OUTF(k + 1) == OUTF(k) + NOUTF(k)), patterns=[OUTF(k + 1)]))
    g.fn('ADDR0', lambda: SV(z3.Int('addr_' + g.arg('out').base), 'int'))


def lemmas(run):
    """FR_mono by induction on b (LEN as an uninterpreted function of the frame index)"""
    LENF = z3.Function('LENk', z3.IntSort(), z3.IntSort())
    k, a, b = z3.Ints('k a b')
    rec = [NF >= 0, FRF(0) == 0, z3.ForAll([k], z3.Implies(z3.And(0 <= k, k < NF), z3.And(LENF(k) > 0, FRF(k + 1) == FRF(k) + 4 + LENF(k))), patterns=[FRF(k)])]
    P = lambda bb: z3.ForAll([a], z3.Implies(z3.And(0 <= a, a < bb, bb <= NF), FRF(a) + 4 + LENF(a) <= FRF(bb)))      # noqa: E731
    run.lemma('lemma.FR_mono.base', rec, P(z3.IntVal(0)))
    run.lemma('lemma.FR_mono.step', rec + [b >= 0, P(b)], P(b + 1))


def state_inv(pos):
    return [
        '0 <= ghost_n and ghost_n <= NF', 'bytesout == OUTOFF(ghost_n)', '_size >= 0',
        # mode A: between frames, possibly with a partially read length prefix
        f'implies(_buffer is None and _size == 0, {pos} == FR(ghost_n) + len(_partial_len) and len(_partial_len) < 4 and '
        'forall(j, 0, len(_partial_len), _partial_len[j] == ghost_stream[FR(ghost_n) + j]))',
        # mode B: length known, nothing of the payload consumed, no reassembly buffer
        f'implies(_buffer is None and _size != 0, ghost_n < NF and {pos} == FR(ghost_n) + 4 and _size == LEN(ghost_n) and len(_partial_len) == 0)',
        # mode C: payload being reassembled in _buffer
        f'implies(_buffer is not None, ghost_n < NF and _size == LEN(ghost_n) and len(_buffer) == _size and 0 <= _pos and _pos < _size and '
        f'{pos} == FR(ghost_n) + 4 + _pos and len(_partial_len) == 0 and forall(j, 0, _pos, _buffer[j] == ghost_stream[FR(ghost_n) + 4 + j]))',
    ]


PTR = CalleeSpec(['buf', 'addr'],
                 requires=['ghost_n < NF', 'len(buf) == LEN(ghost_n)', 'forall(j, 0, len(buf), buf[j] == ghost_stream[FR(ghost_n) + 4 + j])',
                           'addr == ADDR0() + OUTOFF(ghost_n)'],
                 ensures=['result == NOUT(ghost_n)'], result='int', updates={'ghost_n': 'ghost_n + 1'})


def spec_decompress():
    chunk = ['0 <= kchunk and kchunk < NCHUNKS', 'voff(block) + len(block) == CUT(kchunk + 1)', 'CUT(kchunk) <= voff(block)']
    kinds = {'_buffer': ['none', 'int[:]'], '_partial_len': ['int[:]']}
    return FnSpec(FILE, 'BloscCompressor.decompress', prop='C14', name='BloscCompressor.decompress', auto_skolem=True,
                  args=dict(self=None, blocks='chunks:ghost_stream', out='int[:]', ghost_n=0),
                  ghosts=ghosts,
                  requires=['forall(j, 0, len(ghost_stream), 0 <= ghost_stream[j] and ghost_stream[j] <= 255)'],
                  ensures=['ghost_n == NF', 'result == OUTOFF(NF)'],
                  callees={'blosc.decompress_ptr': PTR},
                  loops={0: LoopSpec(invariant=state_inv('CUT(kchunk)'), index='kchunk', kinds=kinds, modifies=['ghost_n'],
                                     exit_asserts=['mention FR(ghost_n + 1)']),
                         1: LoopSpec(invariant=chunk + state_inv('voff(block)'), views=['block'], kinds=kinds, modifies=['ghost_n'],
                                     variant='len(block)')})
