"""C08 - every Fourier mode is binned exactly once into the right (k, mu) bin.

Assertional refinement on the real loop nests of bin_kmu / bin_kppi (DESIGN 6/C08):
 (A) fold:       the code's i2, j2 equal freq(i)^2, freq(j)^2 with freq(i) = i if i <= (n-1)//2 else i - n, for every n >= 1;
 (B) placement:  whenever a cell (bk, bmu) is incremented for mode (i,j,k):  kedges2[bk] <= |k|^2 <= kedges2[bk+1] and
                 muedges2[bmu] <= mu^2 <= muedges2[bmu+1] (ties at an edge unconstrained), and the increment carries the
                 multiplicity mult(k) = 1 for k = 0 and 2k = n (planes that contain both members of a conjugate pair), else 2;
 (C) no drop:    a mode skipped by `continue` lies outside [edge_0, edge_last); leaving a loop with `break` needs every
                 remaining iteration of that loop to lie at or beyond the last edge (monotonicity lemma for kz; this is the
                 obligation that fails for a `break` on the folded, non-monotonic j axis);
 (D) reduction:  per-thread accumulators are written only in plane [thread id]; every subscript is in bounds.
 Legendre: P_n(mu^2, n) for n = 0..10 equals the Legendre polynomial (exact polynomial identity).
The final summation (counts = sum of the per-mode increments, means = sums / counts) is the sum-of-update lemma L1 (trusted,
Lean-checked statement) and is exercised by the bounded comparison with a brute-force count over the FULL n^3 mesh.
"""
import itertools
import random

import numpy as np
import z3

from pyvc.engine import FnSpec, LoopSpec, CalleeSpec, SV, Arr, St, DT, I, fresh

PS = 'abacusnbody/analysis/power_spectrum.py'
R = z3.ToReal


# ------------------------------------------------------------------ ghost functions
def ghosts(g):
    eng = g.eng
    n1d = eng.tosv(g.arg('n1d')).t
    K2 = z3.Function('K2', z3.IntSort(), z3.IntSort())
    a, b = z3.Ints('ka kb')
    # K2(k) = k*k, used through its linear recurrence and monotonicity (lemma K2 below)
    g.axiom(K2(0) == 0)
    g.axiom(z3.ForAll([a], z3.Implies(a >= 0, z3.And(K2(a + 1) == K2(a) + 2 * a + 1, K2(a) >= 0)), patterns=[K2(a + 1)]))
    g.axiom(z3.ForAll([a, b], z3.Implies(z3.And(0 <= a, a <= b), K2(a) <= K2(b)), patterns=[z3.MultiPattern(K2(a), K2(b))]))
    g.fn('K2', lambda k: SV(K2(z3.simplify(eng.tosv(k).t)), 'int'))
    g.define('K2D', ['int'], 'int', lambda k: SV(k.t * k.t, 'int'))        # the definition, for the link k**2 == K2(k)
    g.axiom(z3.ForAll([a], z3.Implies(a >= 0, K2(a) == a * a), patterns=[K2(a)]))        # lemma K2_is_square
    # freq(i)^2 as the property defines it
    g.define('FREQ2', ['int'], 'int', lambda i: SV(z3.If(i.t <= (n1d - 1) / 2, i.t * i.t, (i.t - n1d) * (i.t - n1d)), 'int'))
    g.define('MULT', ['int'], 'int', lambda k: SV(z3.If(z3.Or(k.t == 0, 2 * k.t == n1d), 1, 2), 'int'))
    # mu^2 of mode with transverse s = i2 + j2 and kz = k:  k^2 / (s + k^2), 0 for the zero mode
    MU2 = z3.Function('MU2', z3.IntSort(), z3.IntSort(), z3.RealSort())
    s = z3.Int('ms')
    g.axiom(z3.ForAll([s, a], z3.Implies(z3.And(s >= 0, a >= 0),
                                         z3.And(MU2(s, a) >= 0, MU2(s, a) <= 1,
                                                MU2(s, a) == z3.If(s + K2(a) > 0, R(K2(a)) / R(s + K2(a)), 0))),
                      patterns=[MU2(s, a)]))
    # lemma mu2_monotone_in_kz (with K2 monotone)
    g.axiom(z3.ForAll([s, a, b], z3.Implies(z3.And(s >= 0, 0 <= a, a <= b), MU2(s, a) <= MU2(s, b)),
                      patterns=[z3.MultiPattern(MU2(s, a), MU2(s, b))]))
    g.fn('MU2', lambda s_, k: SV(MU2(z3.simplify(eng.tosv(s_).t), z3.simplify(eng.tosv(k).t)), 'real'))


def prove_lemmas(run):
    k, s = z3.Ints('k s')
    K2 = z3.Function('K2', z3.IntSort(), z3.IntSort())
    a, b = z3.Ints('a b')
    rec = [K2(0) == 0, z3.ForAll([a], z3.Implies(a >= 0, K2(a + 1) == K2(a) + 2 * a + 1), patterns=[K2(a + 1)])]
    # K2(k) == k*k, K2 >= 0 and monotone, by induction
    run.lemma('lemma.K2_is_square.base', rec, K2(0) == 0 * 0)
    run.lemma('lemma.K2_is_square.step', rec + [k >= 0, K2(k) == k * k], K2(k + 1) == (k + 1) * (k + 1))
    run.lemma('lemma.K2_nonneg.step', rec + [k >= 0, K2(k) >= 0], K2(k + 1) >= 0)
    P = lambda bb: z3.ForAll([a], z3.Implies(z3.And(0 <= a, a <= bb), K2(a) <= K2(bb)))      # noqa: E731
    nn = z3.ForAll([a], z3.Implies(a >= 0, K2(a) >= 0), patterns=[K2(a)])
    run.lemma('lemma.K2_mono.base', rec, P(z3.IntVal(0)))
    run.lemma('lemma.K2_mono.step', rec + [nn, b >= 0, P(b)], P(b + 1))
    # mu^2 = kz^2/(s + kz^2) is non-decreasing in kz and at most 1 (real arithmetic, x = kz^2, y = (kz+1)^2 >= x)
    x, y, t = z3.Reals('x y t')
    mu = lambda xx: z3.If(t + xx > 0, xx / (t + xx), z3.RealVal(0))       # noqa: E731
    run.lemma('lemma.mu2_monotone_in_kz', [t >= 0, x >= 0, y >= x], z3.And(mu(x) <= mu(y), mu(x) >= 0, mu(x) <= 1))
    # squared comparisons are equivalent to the unsquared ones (edges and |k| non-negative, dk > 0)
    e, m, dk = z3.Reals('e m dk')
    run.lemma('lemma.edge_comparison_in_squares', [e >= 0, m >= 0, dk > 0], z3.And((e / dk) * (e / dk) <= m * m) == (e <= m * dk))
    # fold: freq(i)^2 of the property vs the code's test i < (n+1)//2
    i, n = z3.Ints('i n')
    run.lemma('lemma.fold_test_equivalent', [n >= 1, 0 <= i, i < n], (i < (n + 1) / 2) == (i <= (n - 1) / 2))
    # the half mesh kz in [0, n//2] with multiplicity mult covers the full axis once: sum_kz mult(kz) == n
    run.lemma('lemma.half_mesh_multiplicity_sums_to_n.even', [n >= 2, n % 2 == 0], 1 + 1 + 2 * (n / 2 - 1) == n)
    run.lemma('lemma.half_mesh_multiplicity_sums_to_n.odd', [n >= 1, n % 2 == 1], 1 + 2 * (n / 2) == n)


# ------------------------------------------------------------------ block contracts for the whole-array lines
def edges2_block(src, name, srcname, first_zero=False):
    def apply(eng, st):
        a = st.env[srcname]
        new = eng.new_array(st, name, a.shape, 'real', DT('real', 'float64'))
        st.env[name] = new
        dk = eng.toreal(eng.tosv(st.env['dk'])).t
        q = z3.Int('eq')
        t_new, t_old = st.heap[new.base], st.heap[a.base]
        if srcname == 'muedges':
            st.pc.append(z3.ForAll([q], z3.Select(t_new, q) == z3.Select(t_old, q) * z3.Select(t_old, q), patterns=[z3.Select(t_new, q)]))
        else:
            st.pc.append(z3.ForAll([q], z3.Select(t_new, q) == (z3.Select(t_old, q) / dk) * (z3.Select(t_old, q) / dk),
                                   patterns=[z3.Select(t_new, q)]))
    return dict(stmts=[src], apply=apply, note=f'{src}: elementwise square of the edge array')


def piedges_block():
    src = 'piedges2 = ((np.linspace(0.0, pimax, Npi + 1) / dk) ** 2).astype(dtype)'

    def apply(eng, st):
        npi = I(st.env['Npi'])
        new = eng.new_array(st, 'piedges2', [npi + 1], 'real', DT('real', 'float64'))
        st.env['piedges2'] = new
        t = st.heap[new.base]
        dk = eng.toreal(eng.tosv(st.env['dk'])).t
        pimax = eng.toreal(eng.tosv(st.env['pimax'])).t
        q = z3.Int('pq')
        st.pc.append(z3.Select(t, 0) == 0)
        st.pc.append(z3.Select(t, npi) == (pimax / dk) * (pimax / dk))
        st.pc.append(z3.ForAll([q], z3.Implies(z3.And(0 <= q, q <= npi), z3.Select(t, q) >= 0), patterns=[z3.Select(t, q)]))
    return dict(stmts=[src], apply=apply, note='np.linspace(0, pimax, Npi+1) scaled and squared: Npi+1 non-negative entries, first 0, last (pimax/dk)^2')


PN_CALLEE = CalleeSpec(['x', 'n'], requires=['0 <= n and n <= 10', 'x >= 0'], result='real')

RED = lambda v: (v, 'a == __tid__', 'reduction')      # noqa: E731


def spec_kmu(with_poles):
    req = ['n1d >= 1', 'L > 0', 'len(kedges) >= 2', 'len(muedges) >= 2',
           'weights.shape[0] == n1d and weights.shape[1] == n1d and weights.shape[2] == n1d // 2 + 1',
           'forall(q, 0, len(kedges), kedges[q] >= 0)',
           'muedges[0] == 0 and muedges[len(muedges) - 1] >= 1']       # documented: mu ranges from 0 to 1
    if with_poles:
        req += ['forall(q, 0, len(poles), 0 <= poles[q] and poles[q] <= 10)']
    placement = ['kedges2[bk] <= kmag2 and kmag2 <= kedges2[bk + 1]', 'muedges2[bmu] <= mu2 and mu2 <= muedges2[bmu + 1]',
                 'kmag2 == FREQ2(i) + FREQ2(j) + K2(k)', 'mu2 == MU2(FREQ2(i) + FREQ2(j), k)',
                 '__rhs__ == MULT(k)']
    kinv = ['0 <= bk and bk < Nk', '0 <= bmu and bmu < Nmu', 'i2 == FREQ2(i) and j2 == FREQ2(j) and i2 >= 0 and j2 >= 0',
            'bk == 0 or kedges2[bk] < i2 + j2 + K2(k)', 'bmu == 0 or muedges2[bmu] < MU2(i2 + j2, k)']
    loops = {
        0: LoopSpec(invariant=[], writes=dict(counts=('a,b,c', 'a == __tid__', 'reduction'), weighted_counts=('a,b,c', 'a == __tid__', 'reduction'),
                                              weighted_counts_poles=('a,b,c', 'a == __tid__', 'reduction'),
                                              weighted_counts_k=('a,b,c', 'a == __tid__', 'reduction')),
                    body_asserts={'i2 = ': []}),
        1: LoopSpec(invariant=['i2 == FREQ2(i) and i2 >= 0'], body_asserts={'j2 = ': []}),
        2: LoopSpec(invariant=kinv,
                    body_asserts={
                        'kmag2 = ': ['mention FREQ2(i)', 'mention FREQ2(j)', 'mention K2D(k)', 'k ** 2 == K2(k)', 'mention MULT(k)'],
                        'if kmag2 < kedges2[0]': ['kmag2 == i2 + j2 + K2(k)', 'mu2 == MU2(i2 + j2, k)', 'mu2 <= 1'],
                        'continue': ['kmag2 < kedges2[0]'],
                        'break': ['kmag2 >= kedges2[len(kedges2) - 1]',
                                  'forall(kk, k, kzlen, i2 + j2 + K2(kk) >= kmag2)'],        # all remaining kz are at or beyond the last edge
                        'counts[tid, bk, bmu] +=': placement,
                        # the other accumulators receive the same multiplicity times value / |k| / (2l+1) P_l(mu) value
                        'weighted_counts[tid, bk, bmu] +=': ['__rhs__ == MULT(k) * weights[i, j, k]'],
                        'weighted_counts_k[tid, bk, bmu] +=': ['kmag2 >= 0', '__rhs__ == MULT(k) * sqrt(kmag2) * dk'],
                        'pw = ': [],
                        'weighted_counts_poles[tid, ip, bk] +=': ['__rhs__ == MULT(k) * weights[i, j, k] * pw', 'pole == poles[ip]']},
                    asserts=['MU2(i2 + j2, k - 1) <= MU2(i2 + j2, k)', 'K2(k - 1) <= K2(k)']),
        3: LoopSpec(invariant=['0 <= bk and bk < Nk', 'bk == 0 or kedges2[bk] < kmag2'], variant='Nk - bk'),
        4: LoopSpec(invariant=['0 <= bmu and bmu < Nmu', 'bmu == 0 or muedges2[bmu] < mu2'], variant='Nmu - bmu'),
        5: LoopSpec(invariant=[]),
    }
    return FnSpec(PS, 'bin_kmu', prop='C08', name=f'bin_kmu[poles={with_poles}]',
                  args=dict(n1d='int', L='real', kedges='real[:]!ro', muedges='real[:]!ro', weights='real[:,:,:]!ro',
                            poles='int[:]!ro', dtype=DT('real', 'float32'), fourier=True, nthread='int'),
                  slice=('numba.set_num_threads(nthread)', '<counts = counts.sum(axis=0)'),
                  ghosts=ghosts, requires=req + (['len(poles) >= 1'] if with_poles else ['len(poles) == 0']),
                  callees={'P_n': PN_CALLEE}, loops=loops, name_values=['i2', 'j2', 'kmag2', 'mu2', 'invkmag2'],
                  blocks=[edges2_block('kedges2 = ((kedges / dk) ** 2).astype(dtype)', 'kedges2', 'kedges'),
                          edges2_block('muedges2 = (muedges ** 2).astype(dtype)', 'muedges2', 'muedges')],
                  hints={'nthread = numba.get_num_threads()': ['kedges2[len(kedges2) - 1] >= 0 or True'],
                         'counts = np.zeros': ['muedges2[Nmu] >= 1']})


def spec_kppi():
    req = ['n1d >= 1', 'L > 0', 'len(kedges) >= 2', 'Npi >= 1', 'pimax > 0',
           'weights.shape[0] == n1d and weights.shape[1] == n1d and weights.shape[2] == n1d // 2 + 1',
           'forall(q, 0, len(kedges), kedges[q] >= 0)']
    loops = {
        0: LoopSpec(invariant=[], writes=dict(counts=('a,b,c', 'a == __tid__', 'reduction'), weighted_counts=('a,b,c', 'a == __tid__', 'reduction'))),
        1: LoopSpec(invariant=['i2 == FREQ2(i) and i2 >= 0'],
                    body_asserts={'kmag2 = ': ['mention FREQ2(i)', 'mention FREQ2(j)'],
                                  'continue': ['kmag2 < kedges2[0] or kmag2 >= kedges2[len(kedges2) - 1]'],
                                  # a `break` on the folded transverse axis must show that no later j is in range
                                  'break': ['forall(jj, j, n1d, FREQ2(i) + FREQ2(jj) >= kedges2[len(kedges2) - 1] or FREQ2(i) + FREQ2(jj) < kedges2[0])']}),
        2: LoopSpec(invariant=['0 <= bk and bk < Nk', 'bk == 0 or kedges2[bk] < kmag2'], variant='Nk - bk'),
        3: LoopSpec(invariant=['0 <= bpi and bpi < Npi', 'bpi == 0 or piedges2[bpi] < K2(k)',
                               '0 <= bk and bk < Nk', 'kedges2[bk] <= kmag2 and kmag2 <= kedges2[bk + 1]', 'kmag2 == FREQ2(i) + FREQ2(j)'],
                    body_asserts={'kz2 = ': ['mention K2D(k)', 'k ** 2 == K2(k)', 'mention MULT(k)'],
                                  'break': ['kz2 >= piedges2[Npi]', 'forall(kk, k, kzlen, K2(kk) >= kz2)'],
                                  'counts[tid, bk, bpi] +=': ['kedges2[bk] <= kmag2 and kmag2 <= kedges2[bk + 1]',
                                                             'piedges2[bpi] <= kz2 and kz2 <= piedges2[bpi + 1]',
                                                             'kz2 == K2(k)', '__rhs__ == MULT(k)'],
                                  'weighted_counts[tid, bk, bpi] +=': ['__rhs__ == MULT(k) * weights[i, j, k]']},
                    asserts=['K2(k - 1) <= K2(k)']),
        4: LoopSpec(invariant=['0 <= bpi and bpi < Npi', 'bpi == 0 or piedges2[bpi] < kz2'], variant='Npi - bpi'),
    }
    return FnSpec(PS, 'bin_kppi', prop='C08', name='bin_kppi',
                  args=dict(n1d='int', L='real', kedges='real[:]!ro', pimax='real', Npi='int', weights='real[:,:,:]!ro',
                            dtype=DT('real', 'float32'), fourier=True, nthread='int'),
                  slice=('numba.set_num_threads(nthread)', '<counts = counts.sum(axis=0)'),
                  ghosts=ghosts, requires=req, loops=loops, name_values=['i2', 'j2', 'kmag2', 'kz2'],
                  blocks=[edges2_block('kedges2 = ((kedges / dk) ** 2).astype(dtype)', 'kedges2', 'kedges'), piedges_block()])


# ------------------------------------------------------------------ Legendre polynomials
def legendre_coeffs(n):
    import sympy
    x = sympy.Symbol('x')
    return [sympy.Rational(c) for c in sympy.Poly(sympy.legendre(n, x), x).all_coeffs()[::-1]]      # ascending powers


def spec_Pn(n):
    co = legendre_coeffs(n)
    # P_n(mu) as a polynomial in s = sqrt(x): even powers are powers of x
    terms = []
    for p, c in enumerate(co):
        if c == 0:
            continue
        terms.append(f'({c.p}/{c.q}) * ' + ('1' if p == 0 else ' * '.join(['SQ'] * p)))
    rhs = ' + '.join(terms) if terms else '0'
    return FnSpec(PS, 'P_n', prop='C08', name=f'P_n[n={n}]', args=dict(x='real', n=n, dtype=DT('real', 'float32'), ghost_SQ='real'),
                  requires=['x >= 0', 'ghost_SQ >= 0 and ghost_SQ * ghost_SQ == x'], inline=['n_choose_k', 'factorial'],
                  ensures=[f'result == {rhs.replace("SQ", "ghost_SQ")}'])


# ------------------------------------------------------------------ brute force oracle over the FULL mesh
def brute_kmu(n, L, kedges, muedges, w_half, poles=()):
    """count every mode of the full n^3 mesh (conjugates included) with its own |k| and mu; mesh value from the half mesh"""
    dk = 2 * np.pi / L
    Nk, Nmu = len(kedges) - 1, len(muedges) - 1
    cnt = np.zeros((Nk, Nmu), dtype=np.int64)
    wsum = np.zeros((Nk, Nmu))
    ksum = np.zeros((Nk, Nmu))
    psum = np.zeros((len(poles), Nk))
    amb = np.zeros((Nk, Nmu), dtype=bool)
    from numpy.polynomial import legendre as Lg
    f = lambda a: a if a <= (n - 1) // 2 else a - n       # noqa: E731
    for i, j, k in itertools.product(range(n), repeat=3):
        kx, ky, kz = f(i), f(j), f(k)
        k2 = kx * kx + ky * ky + kz * kz
        km = np.sqrt(k2) * dk
        mu = abs(kz) / np.sqrt(k2) if k2 > 0 else 0.0
        if km < kedges[0] or km >= kedges[-1]:
            continue
        b = int(np.searchsorted(kedges, km, side='right') - 1)
        m = int(min(np.searchsorted(muedges, mu, side='right') - 1, Nmu - 1))
        # value: mesh is Hermitian, the half mesh stores kz >= 0; conjugate partner (-i,-j,-k) has the same real value here
        ii, jj, kk = (i, j, k) if k <= n // 2 else ((n - i) % n, (n - j) % n, n - k)
        val = w_half[ii, jj, kk]
        tie = any(abs(km - e) < 1e-9 for e in kedges) or any(abs(mu - e) < 1e-9 for e in muedges[1:-1])
        if tie:
            amb[b, m] = True
            continue
        cnt[b, m] += 1
        wsum[b, m] += val
        ksum[b, m] += km
        for ip, ell in enumerate(poles):
            c = [0] * ell + [1]
            psum[ip, b] += (2 * ell + 1) * Lg.legval(mu, c) * val
    return cnt, wsum, ksum, psum, amb


def judge_kmu(n, L, kedges, muedges, poles, nthread, seed):
    from abacusnbody.analysis.power_spectrum import bin_kmu
    rnd = np.random.default_rng(seed)
    # a Hermitian-consistent real half mesh: value depends only on the set {mode, conjugate}
    full = rnd.random((n, n, n))
    sym = np.zeros_like(full)
    for i, j, k in itertools.product(range(n), repeat=3):
        sym[i, j, k] = full[i, j, k] + full[(n - i) % n, (n - j) % n, (n - k) % n]
    w = np.ascontiguousarray(sym[:, :, : n // 2 + 1]).astype(np.float64)
    ke, me = np.asarray(kedges, dtype=np.float64), np.asarray(muedges, dtype=np.float64)
    try:
        r = bin_kmu(n, L, ke, me, w, poles=np.asarray(poles, dtype=np.int64), dtype=np.float64, nthread=nthread)
    except (IndexError, SystemError) as ex:       # bounds check inside a parallel kernel surfaces as SystemError
        return f'out-of-bounds access: {ex}'
    wc, cnt, wpoles, cpoles, wk = r
    bc, bw, bk_, bp, amb = brute_kmu(n, L, ke, me, w, poles)
    ok = ~amb
    if amb.any():
        return None       # a mode sits exactly on an edge: tie placement is unconstrained; skip this configuration
    if not np.array_equal(cnt[ok], bc[ok]):
        return f'N_mode {cnt.tolist()} expected {bc.tolist()} (n1d={n}, kedges={list(kedges)}, muedges={list(muedges)}, nthread={nthread})'
    nz = bc > 0
    if not np.allclose(wc[nz], (bw[nz] / bc[nz]), rtol=1e-9, atol=1e-12):
        return f'mean power differs (n1d={n})'
    if not np.allclose(wk[nz], (bk_[nz] / bc[nz]), rtol=1e-9, atol=1e-12):
        return f'mean k differs (n1d={n})'
    tot = bc.sum(axis=1)
    for ip, ell in enumerate(poles):
        good = tot > 0
        if ell == 0:
            want = bw.sum(axis=1)[good] / tot[good]       # l=0 pole = mode-weighted mu-average of the wedges
        else:
            want = bp[ip][good] / tot[good]
        if not np.allclose(wpoles[ip][good], want, rtol=1e-6, atol=1e-9):
            return f'multipole l={ell} differs: {wpoles[ip][good].tolist()} expected {want.tolist()} (n1d={n})'
    if not np.array_equal(cpoles, tot):
        return 'counts_poles differ'
    return None


def brute_kppi(n, L, kedges, pimax, Npi):
    dk = 2 * np.pi / L
    pie = np.linspace(0.0, pimax, Npi + 1)
    cnt = np.zeros((len(kedges) - 1, Npi), dtype=np.int64)
    f = lambda a: a if a <= (n - 1) // 2 else a - n       # noqa: E731
    amb = False
    for i, j, k in itertools.product(range(n), repeat=3):
        kx, ky, kz = f(i), f(j), f(k)
        kp = np.sqrt(kx * kx + ky * ky) * dk
        kz_ = abs(kz) * dk
        if kp < kedges[0] or kp >= kedges[-1] or kz_ >= pie[-1]:
            continue
        if any(abs(kp - e) < 1e-9 for e in kedges) or any(abs(kz_ - e) < 1e-9 for e in pie[1:]):
            amb = True
        cnt[int(np.searchsorted(kedges, kp, side='right') - 1), int(np.searchsorted(pie, kz_, side='right') - 1)] += 1
    return cnt, amb


def judge_kppi(n, L, kedges, pimax, Npi, nthread):
    from abacusnbody.analysis.power_spectrum import bin_kppi
    w = np.ones((n, n, n // 2 + 1), dtype=np.float64)
    try:
        wc, cnt = bin_kppi(n, L, np.asarray(kedges, dtype=np.float64), pimax, Npi, w, dtype=np.float64, nthread=nthread)
    except (IndexError, SystemError) as ex:       # bounds check inside a parallel kernel surfaces as SystemError
        return f'out-of-bounds access: {ex}'
    bc, amb = brute_kppi(n, L, np.asarray(kedges), pimax, Npi)
    if amb:
        return None
    if not np.array_equal(cnt, bc):
        return f'bin_kppi N_mode {cnt.tolist()} expected {bc.tolist()} (n1d={n}, kedges={list(kedges)}, pimax={pimax}, Npi={Npi})'
    return None


def configs(tier):
    L = 2 * np.pi * 1.0
    out = []
    for n in ((1, 2, 3, 4, 5, 6, 7, 8) if tier == 'quick' else range(1, 13)):
        ny = n / 2.0
        for kedges in ([0.0, 1.3, 2.7, 4.4], [0.45, 1.55, 2.65], [0.0, 0.6 * ny + 0.07, 1.9 * ny + 0.03], [0.3, 0.71, 1.37, 2.21, 3.33, 9.7]):
            for muedges in ([0.0, 1.0], [0.0, 0.31, 0.62, 1.0], [0.0, 0.47, 1.2]):
                out.append((n, L, kedges, muedges))
    return out


def replayer(obl, model):
    for n, L, ke, me in configs('quick'):
        for nt in (1, 3):
            why = judge_kmu(n, L, ke, me, (0, 2, 4), nt, 1)
            if why:
                return True, why
        for pimax, npi in ((2.5, 3), (9.3, 2)):
            why = judge_kppi(n, L, ke, pimax, npi, 2)
            if why:
                return True, why
    return False, 'no case reproduced'


def bounded(run):
    nev, ncfg = 0, 0
    cf = configs(run.tier)
    for n, L, ke, me in cf:
        for nt in ((1, 2, 5) if run.tier == 'quick' else (1, 2, 3, 5, 16)):
            why = judge_kmu(n, L, ke, me, ((0, 2, 4), (2, 0, 4), (), (4, 2, 0))[ncfg % 4], nt, run.seed + ncfg)
            nev += n ** 3
            ncfg += 1
            if why:
                run.bounded_violation('bin_kmu vs brute-force count over the full mesh', dict(n1d=n, kedges=ke, muedges=me, nthread=nt), why)
                return
        for pimax, npi in ((2.5, 3), (9.3, 2), (0.9, 1)):
            why = judge_kppi(n, L, ke, pimax, npi, 2)
            nev += n ** 3
            if why:
                run.bounded_violation('bin_kppi vs brute-force count over the full mesh', dict(n1d=n, kedges=ke, pimax=pimax, Npi=npi), why)
                return
    run.add_bounded('compiled bin_kmu / bin_kppi vs brute force over all n^3 modes', nev, ncfg,
                    'mesh sizes 1..8 (12 thorough, odd and even) x 4 edge arrays (starting at/above 0, ending below/above Nyquist) x 3 mu binnings x poles (0,2,4) / (2,0,4) / (4,2,0) / none x threads; Hermitian random mesh values; configurations with a mode exactly on an edge are skipped (ties unconstrained)',
                    [dict(n1d=cf[5][0], kedges=cf[5][2], muedges=cf[5][3])])


def check(run):
    run.level = 'proof'
    prove_lemmas(run)
    for wp in (False, True):
        run.prove(spec_kmu(wp), replayer)
    run.prove(spec_kppi(), replayer)
    for n in range(0, 11):
        run.prove(spec_Pn(n))
    run.discharge()
    bounded(run)
    run.assumptions += [
        'floats are reals (comparison of kmag2 with float edges at exactly representable ties, fastmath not modelled)',
        'summation step (counts = sum of per-mode increments; means = sums/counts; reduction over thread planes) is lemma L1 (sum of updates), trusted; exercised by the brute-force comparison',
        'L4 (half-mesh with multiplicities covers the full mesh): per-axis arithmetic proved (lemma half_mesh_multiplicity_sums_to_n), the pairing itself is the Hermitian symmetry of a real field (trusted)',
        'block contracts: elementwise squaring of the edge arrays; np.linspace(0, pimax, Npi+1)',
        'numba.get_thread_id() in [0, num_threads) and constant during an iteration',
    ]


def replay_file(rec, repo):
    return replayer(None, None)[0]
