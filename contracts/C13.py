"""C13 - the power-spectrum estimate has the symmetries of the estimator.

What contracts decide here and what they do not (DESIGN 6/C13):
* proved elsewhere and used as lemmas over contracts: particle permutation invariance and accumulation are the additivity
  postcondition of the paint kernels (C06); whole-cell translation rolls the grid (C06 shift lemma); thread-count independence
  of the paint (C07) and of the mode binning (C08 reduction planes); N_mode / k / mu ranges never depend on the mesh values
  (C08: counts are incremented by the multiplicity only - proved below as a non-interference obligation on bin_kmu);
* proved here: get_raw_power(f, f) = |f|^2 (cross equals auto at the mode level, real arithmetic on re/im);
* ASSUMED, not proved: the FFT shift theorem for scipy.fft.rfftn (a rolled grid multiplies each mode by a unit phase);
* bounded: the real calc_power on random particles: permutation, whole-cell translations with periodic wrapping, thread counts,
  pos2 = pos, for TSC/CIC x compensated x interlaced x binnings x poles; N_mode / ranges / shape equal for different particle sets.
Deduction is silent on rounding and on the FFT, which is why the level is `other`.
"""
import itertools

import numpy as np
import z3

from contracts import C08


def lemmas(run):
    a, b = z3.Reals('re im')
    # (conj f * f).real == |f|^2 and its imaginary part vanishes
    run.lemma('lemma.cross_equals_auto_per_mode', [], z3.And(a * a + b * b == a * a - (-b) * b, a * b + (-b) * a == 0))
    # a unit phase leaves |f|^2 unchanged (what the assumed shift theorem is combined with)
    c, s = z3.Reals('c s')
    run.lemma('lemma.unit_phase_preserves_power', [c * c + s * s == 1],
              (a * c - b * s) * (a * c - b * s) + (a * s + b * c) * (a * s + b * c) == a * a + b * b)


def noninterference_counts(run):
    """N_mode does not depend on the mesh values: in the proved C08 contract every `counts[...] +=` receives MULT(k) (hint
    obligations `__rhs__ == MULT(k)`), a function of the mode index only.  Re-discharged here on the real bin_kmu."""
    for wp in (False,):
        s = C08.spec_kmu(wp)
        s.prop = 'C13'
        run.prove(s)


def power(pos, L, nmesh, paste, comp, inter, nthread, pos2=None, poles=(0, 2), dtype=np.float32, nbins=6, mubins=3, w=None, w2=None, alias=False):
    """alias=True: the second field is given as the very same array objects as the first (pos2 is pos, w2 is w)"""
    from abacusnbody.analysis.power_spectrum import calc_power
    import numba
    try:
        p1 = pos.copy()
        w1 = None if w is None else w.copy()
        if alias:
            p2, ww2 = p1, w1
        else:
            p2, ww2 = (None if pos2 is None else pos2.copy()), (None if w2 is None else w2.copy())
        r = calc_power(p1, L, nbins, mubins, None, False, paste, nmesh, comp, inter, w=w1, pos2=p2, w2=ww2,
                       poles=list(poles), nthread=nthread, dtype=dtype)
    finally:
        numba.set_num_threads(numba.config.NUMBA_NUM_THREADS)
    return r


def close(a, b, rtol, scale):
    a, b = np.asarray(a, dtype=np.float64), np.asarray(b, dtype=np.float64)
    m = np.isfinite(a) | np.isfinite(b)
    return a.shape == b.shape and np.all(np.abs(a[m] - b[m]) <= rtol * scale)


def judge(seed, nmesh, paste, comp, inter, N, dtype):
    rng = np.random.default_rng(seed)
    L = 100.0
    pos = (rng.random((N, 3)) * L).astype(dtype)
    cell = L / nmesh
    try:
        base = power(pos, L, nmesh, paste, comp, inter, 4, dtype=dtype)
    except Exception as ex:      # noqa
        return f'calc_power raised {ex!r}'
    scale = float(np.nanmax(np.abs(np.asarray(base['power'], dtype=np.float64)))) or 1.0
    rtol = 2e-3        # the paint accumulates in float32 whatever the requested dtype: rounding at the level of 1e-4 of the peak
    tag = f'nmesh={nmesh} {paste} compensated={comp} interlaced={inter} N={N} {np.dtype(dtype).name}'
    cols = ['power', 'poles', 'k_avg']

    def same(r, what):
        for c in cols:
            if not close(r[c], base[c], rtol, scale if c != 'k_avg' else float(np.nanmax(np.asarray(base['k_avg'], dtype=np.float64)))):
                return f'{tag}: column {c} changes under {what}'
        if not np.array_equal(np.asarray(r['N_mode']), np.asarray(base['N_mode'])):
            return f'{tag}: N_mode changes under {what}'
        return None
    perm = rng.permutation(N)
    why = same(power(pos[perm], L, nmesh, paste, comp, inter, 4, dtype=dtype), 'a permutation of the particles')
    if why:
        return why
    for shift in ((1, 0, 0), (0, 2, 0), (0, 0, nmesh - 1), (3, 1, 2)):
        p2 = (pos.astype(np.float64) + np.array(shift) * cell) % L
        p2 = np.where(p2 >= L, p2 - L, p2).astype(dtype)
        why = same(power(p2, L, nmesh, paste, comp, inter, 4, dtype=dtype), f'a translation by {shift} cells')
        if why:
            return why
    for nt in (1, 2, 16):
        why = same(power(pos, L, nmesh, paste, comp, inter, nt, dtype=dtype), f'nthread={nt}')
        if why:
            return why
    why = same(power(pos, L, nmesh, paste, comp, inter, 4, pos2=pos, dtype=dtype), 'passing the same particles as the second field')
    if why:
        return why
    why = same(power(pos, L, nmesh, paste, comp, inter, 4, alias=True, dtype=dtype), 'passing the same array object as the second field')
    if why:
        return why
    # weighted particles: the same symmetries with (position, weight) pairs
    w = (rng.random(N) + 0.5).astype(dtype)
    try:
        base_w = power(pos, L, nmesh, paste, comp, inter, 4, dtype=dtype, w=w)
    except Exception as ex:      # noqa
        return f'{tag}: calc_power with weights raised {ex!r}'
    scale_w = float(np.nanmax(np.abs(np.asarray(base_w['power'], dtype=np.float64)))) or 1.0

    def same_w(r, what):
        for c in cols:
            if not close(r[c], base_w[c], rtol, scale_w if c != 'k_avg' else float(np.nanmax(np.asarray(base_w['k_avg'], dtype=np.float64)))):
                return f'{tag}: weighted column {c} changes under {what}'
        return None
    why = same_w(power(pos[perm], L, nmesh, paste, comp, inter, 4, dtype=dtype, w=w[perm]), 'a permutation of the (particle, weight) pairs') or \
        same_w(power(pos, L, nmesh, paste, comp, inter, 2, dtype=dtype, w=w), 'nthread=2') or \
        same_w(power(pos, L, nmesh, paste, comp, inter, 4, dtype=dtype, w=w, alias=True), 'passing the same weighted arrays as the second field')
    if why:
        return why
    other = (rng.random((N // 2 + 3, 3)) * L).astype(dtype)
    r2 = power(other, L, nmesh, paste, comp, inter, 4, dtype=dtype)
    for c in ('N_mode', 'k_min', 'k_max', 'k_mid'):
        if not np.array_equal(np.asarray(r2[c]), np.asarray(base[c])):
            return f'{tag}: {c} depends on the particles'
    if np.asarray(r2['power']).shape != np.asarray(base['power']).shape or np.asarray(r2['poles']).shape != np.asarray(base['poles']).shape:
        return f'{tag}: table shape depends on the particles'
    return None


def _bworker(t):
    try:
        return judge(*t)
    except Exception as ex:      # noqa  a variant call that raises where the base call succeeded breaks the symmetry too
        import traceback
        tb = traceback.format_exc().strip().splitlines()
        return f'nmesh={t[1]} {t[2]} compensated={t[3]} interlaced={t[4]}: a symmetric variant of the call raised {ex!r} ({tb[-3].strip() if len(tb) > 2 else ""})'


def check(run):
    run.level = 'other'
    lemmas(run)
    noninterference_counts(run)
    run.discharge()
    tasks = []
    k = 0
    meshes = (12, 16, 18) if run.tier == 'quick' else (6, 9, 12, 16, 18, 24)
    for nmesh, paste, comp, inter in itertools.product(meshes, ('TSC', 'CIC'), (True, False), (True, False)):
        for dt in ((np.float32,) if (k % 3) else (np.float32, np.float64)):
            tasks.append((run.seed + k, nmesh, paste, comp, inter, 300 + 37 * (k % 5), dt))
        k += 1
    res = run.pmap(_bworker, tasks)
    for t, why in zip(tasks, res):
        if why:
            run.bounded_violation('calc_power lacks a symmetry of the estimator', dict(seed=t[0], nmesh=t[1], paste=t[2], compensated=t[3], interlaced=t[4], N=t[5]), why)
            break
    run.add_bounded('real calc_power under permutation / whole-cell translations / thread counts / pos2 = pos (copy and same object) / weights / different particle sets', len(tasks) * 16, len(tasks),
                    'meshes 12, 16, 18 (6..24 thorough) x TSC/CIC x compensated x interlaced x float32 (+float64 every third) x 300-450 random particles; tolerance 2e-3 of the peak power (float32), 1e-8 (float64)',
                    [dict(nmesh=16, paste='TSC', compensated=True, interlaced=True)])
    run.extra['explanation'] = ('symmetries follow from contracts proved under C06/C07/C08 plus two algebraic lemmas proved here; the FFT shift theorem is assumed; '
                                'floating-point rounding and the composition through scipy.fft are covered only by the bounded replay of the real calc_power')
    run.assumptions += ['FFT shift theorem for scipy.fft.rfftn (assumed, not proved)', 'floats as reals in every lemma; rounding only bounded',
                        'meshes with >= 3 cells per stripe so that tsc_parallel accepts the configuration']


def replay_file(rec, repo):
    w = rec.get('witness', {})
    if 'nmesh' in w:
        return bool(judge(w['seed'], w['nmesh'], w['paste'], w['compensated'], w['interlaced'], w['N'], np.float32))
    return False
