"""C20 - pipe_asdf emits count, width and the concatenated raw bytes per field.

* structural proof on the real AST (all inputs): in unpack_to_pipe every statement that can raise the validation errors
  (FileNotFoundError / ValueError) precedes, in the straight-line top-level statement sequence of the function, every
  statement that writes to the pipe; no loop contains both.  Hence a missing file or field is reported before any byte is
  written (dominance in the control-flow graph of a loop-free top-level sequence).
* bounded run-time contract check of the real function writing into an in-memory pipe, on synthetic uncompressed ASDF
  files: 1-D / 2-D / empty columns, item widths 1..16, 1..3 files, 1..3 fields in every order, against a byte-level
  reference assembled from the arrays that were written to the files.
"""
import ast
import io
import itertools
import os
import shutil
import struct
import tempfile

import numpy as np

FILE = 'abacusnbody/data/pipe_asdf.py'


def dominance(repo):
    """returns (ok, detail, facts)"""
    src = open(os.path.join(repo, FILE)).read()
    tree = ast.parse(src)
    fn = [n for n in tree.body if isinstance(n, ast.FunctionDef) and n.name == 'unpack_to_pipe']
    if not fn:
        return None, 'unpack_to_pipe not found', {}
    fn = fn[0]
    first_write = None
    last_raise = None
    mixed = []
    for k, st in enumerate(fn.body):
        writes = [x for x in ast.walk(st) if isinstance(x, ast.Call) and isinstance(x.func, ast.Attribute)
                  and x.func.attr in ('write', 'writelines') and isinstance(x.func.value, ast.Name) and x.func.value.id == 'pipe']
        raises = [x for x in ast.walk(st) if isinstance(x, ast.Raise) and x.exc is not None and
                  any(nm in ast.unparse(x.exc) for nm in ('FileNotFoundError', 'ValueError'))]
        # file opening / field lookup can also fail: asdf.open and subscripting af.tree happen in validation statements
        if writes and first_write is None:
            first_write = k
        if raises:
            last_raise = k
        if writes and raises:
            mixed.append(st.lineno)
    facts = dict(top_level_statements=len(fn.body), first_statement_writing=first_write, last_statement_raising=last_raise)
    if first_write is None:
        return False, 'no pipe.write found', facts
    if mixed:
        return False, f'statement at line {mixed[0]} both validates (raise) and writes to the pipe', facts
    if last_raise is not None and last_raise > first_write:
        return False, f'a validation error can be raised (statement {last_raise}) after the first write (statement {first_write})', facts
    return True, 'every raise FileNotFoundError/ValueError precedes the first pipe.write in a loop-free top-level sequence', facts


class Pipe(io.BytesIO):
    def isatty(self):
        return False

    def close(self):
        self.final = self.getvalue()
        super().close()


def write_files(tmp, spec):
    """spec: list of dict(field -> ndarray) per file"""
    import asdf
    fns = []
    for k, cols in enumerate(spec):
        fn = os.path.join(tmp, f'f{k}.asdf')
        asdf.AsdfFile({'header': {'n': k}, 'data': dict(cols)}).write_to(fn)
        fns.append(fn)
    return fns


def reference(spec, fields):
    out = b''
    for f in fields:
        n = sum(int(np.prod(cols[f].shape)) for cols in spec)
        width = spec[-1][f].dtype.itemsize
        out += struct.pack('<q', n) + struct.pack('<i', width)
        for cols in spec:
            out += np.ascontiguousarray(cols[f]).tobytes()
    return out


def judge(spec, fields, missing=None, nthread=None):
    from abacusnbody.data.pipe_asdf import unpack_to_pipe
    tmp = tempfile.mkdtemp(prefix='c20_', dir=os.environ.get('VV_WORK', None))
    try:
        fns = write_files(tmp, spec)
        if missing == 'file':
            fns = fns + [os.path.join(tmp, 'nope.asdf')]
        pipe = Pipe()
        try:
            unpack_to_pipe(fns, list(fields), pipe=pipe, verbose=False, **({} if nthread is None else dict(nthread=nthread)))
        except (FileNotFoundError, ValueError) as ex:
            wrote = len(pipe.getvalue()) if not pipe.closed else len(pipe.final)
            if missing is None:
                return f'valid request raised {ex!r}'
            if wrote:
                return f'{type(ex).__name__} reported after {wrote} bytes had been written'
            return None
        except Exception as ex:      # noqa
            return f'unexpected {ex!r} (fields {list(fields)})'
        if missing is not None:
            return f'missing {missing} not reported'
        got = pipe.final
        want = reference(spec, fields)
        if got != want:
            k = next((i for i, (a, b) in enumerate(zip(got, want)) if a != b), min(len(got), len(want)))
            return f'pipe bytes differ at offset {k} (got {len(got)} bytes, expected {len(want)}); fields {list(fields)}'
        return None
    finally:
        shutil.rmtree(tmp, ignore_errors=True)


def cases(seed, tier):
    rng = np.random.default_rng(seed)
    dts = [np.uint8, np.int16, np.float32, np.float64, np.complex128, np.int64, np.uint16]
    out = []
    for nfiles in (1, 2, 3):
        for trial in range(3 if tier == 'quick' else 12):
            cols = {}
            names = ['a', 'b', 'c']
            shapes = {}
            for nm in names:
                dt = dts[rng.integers(len(dts))]
                u = rng.random()
                # 1-D, 2-D, and higher-dimensional columns (the count in the header is the number of data values = prod(shape))
                tail = () if u < 0.45 else ((int(rng.integers(1, 4)),) if u < 0.75 else tuple(int(x) for x in rng.integers(1, 4, size=int(rng.integers(2, 4)))))
                shapes[nm] = (dt, tail)
            spec = []
            for f in range(nfiles):
                d = {}
                for nm in names:
                    dt, tail = shapes[nm]
                    n = int(rng.choice([0, 0, 1, 2, 5, 17]))
                    if nm == 'c' and trial % 3 == 0:
                        n = 0                         # a column that is empty in every file
                    arr = rng.integers(0, 200, (n,) + tail).astype(dt)
                    d[nm] = arr
                spec.append(d)
            out.append(spec)
    # large columns: more than 2^20 values in one file (1-D, (N,3) and (N,2,2)), one per run, together with a short column
    big_n = (1 << 20) + 7
    big = [dict(a=rng.integers(0, 255, big_n).astype(np.uint8), b=rng.integers(0, 200, (big_n // 3 + 5, 3)).astype(np.int16),
                c=rng.integers(0, 200, (2, 2, 2)).astype(np.float32)),
           dict(a=rng.integers(0, 255, 3).astype(np.uint8), b=rng.integers(0, 200, (1, 3)).astype(np.int16),
                c=rng.integers(0, 200, (300000, 2, 2)).astype(np.float32))]
    out.append(big)
    return out


def check(run):
    run.level = 'other'
    ok, detail, facts = dominance(run.repo)
    run.extra['dominance'] = dict(holds=ok, detail=detail, **facts)
    if ok is None:
        run.undecided.append('dominance analysis: ' + detail)
    elif not ok:
        run.bounded_violation('validation does not dominate the first write', facts, detail)
    nev = 0
    distinct = 0
    samples = []
    bad = None
    for spec in cases(run.seed + 20, run.tier):
        distinct += 1
        large = sum(v.size for d in spec for v in d.values()) > 100000
        for r in ((3,) if large else (1, 2, 3)):
            for fields in itertools.permutations(['a', 'b', 'c'], r):
                if large and tuple(fields) not in (('a', 'b', 'c'), ('c', 'b', 'a')):
                    continue
                why = judge(spec, fields)
                nev += 1
                if why and not bad:
                    bad = (dict(fields=list(fields), shapes=[{k: [list(v.shape), v.dtype.name] for k, v in d.items()} for d in spec]), why)
        # a field may be requested more than once: one complete record per request, in request order
        for fields in (['a', 'a'], ['a', 'b', 'a'], ['c', 'c', 'b']):
            why = judge(spec, fields)
            nev += 1
            if why and not bad:
                bad = (dict(fields=fields, shapes=[{k: [list(v.shape), v.dtype.name] for k, v in d.items()} for d in spec]), why)
        if len(samples) < 2:
            samples.append([{k: [list(v.shape), v.dtype.name] for k, v in d.items()} for d in spec])
        # missing field (not first in the list) and missing file: error before any byte
        for fields in (['a', 'zz'], ['zz'], ['a', 'b', 'zz']):
            why = judge(spec, fields, missing='field')
            nev += 1
            if why and not bad:
                bad = (dict(fields=fields), why)
        why = judge(spec, ['a'], missing='file')
        nev += 1
        if why and not bad:
            bad = (dict(missing='file'), why)
        if bad:
            break
    # more input files than decompression threads (default nthread=4; explicit 1 and 2): payloads stay in argument order
    if not bad:
        rng = np.random.default_rng(run.seed + 21)
        many = [dict(a=np.full(3 + k, 10 * k + 1, dtype=np.int16), b=rng.integers(0, 200, (k % 3, 2)).astype(np.float32), c=np.arange(k, dtype=np.uint8)) for k in range(7)]
        distinct += 1
        for nfiles, nt in ((5, None), (7, None), (3, 2), (4, 1), (7, 3)):
            why = judge(many[:nfiles], ['a', 'b', 'c'], nthread=nt)
            nev += 1
            if why and not bad:
                bad = (dict(files=nfiles, nthread=nt), f'{nfiles} files, nthread={nt}: {why}')
    if bad:
        run.bounded_violation('pipe framing', bad[0], bad[1])
    run.add_bounded('real unpack_to_pipe into an in-memory pipe vs byte-level reference', nev, distinct,
                    '1-3 files x 3 columns (1-D / 2-D / 3-D / 4-D, item widths 1..16, lengths {0,1,2,5,17}, a column empty in every file) x every ordered field subset; one pair of files with columns of more than 2^20 values (1-D, (N,3), (N,2,2)); repeated fields; 3-7 files with nthread default / 1 / 2 / 3; missing field (first / later) and missing file',
                    samples)
    run.extra['explanation'] = ('validation-dominates-write decided for all inputs by a structural analysis of the real AST; the framing itself by bounded '
                                'run-time contract evaluation on synthetic files')
    run.assumptions += ['asdf/numpy object layer trusted (files written and read through asdf 5.4, uncompressed)',
                        'count/width are written through numpy scalars (int64/int32, native little-endian)']


def replay_file(rec, repo):
    ok, detail, facts = dominance(repo)
    return ok is False
