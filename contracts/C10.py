"""C10 - the galaxy catalogue is identical for every thread count.

* E1 proofs on the real ASTs: fast_concatenate returns a1 ++ a2 for every Nthread >= 1 (serial branch, parallel branch with the
  proportional thread split, empty operands), every output index written by exactly one prange iteration (footprints disjoint,
  postcondition covers all indices);  _searchsorted_parallel (parallel host lookup) under C12.
* bounded stand-in for the two-pass kernels gen_cent / gen_sats: the real gen_gals for thread counts 1, 2, 3, 7, 16 on host tables of
  0, 1, 2, 5, 17, 61 (... 200) hosts - more threads than hosts, sizes not divisible by the thread count, empty tables - must be
  BITWISE identical column by column (and equal to the sequential reference of C09, whose definition contains no thread count).
"""
from contracts import C09


def check(run):
    run.level = 'other'
    for m in ('serial', 'parallel'):
        s = C09.spec_concat(m)
        s.prop = 'C10'
        run.prove(s)
    for w in (1, 2):
        s = C09.spec_concat_empty(w)
        s.prop = 'C10'
        run.prove(s)
    # parallel host lookup of particles: res[i] = left insertion point of b[i] in a, for every i, with no thread count in the contract
    from contracts import C12
    ss = C12.spec_searchsorted()
    ss.prop = 'C10'
    run.prove(ss)
    sa = C09.spec_assembly(('LRG', 'ELG', 'QSO'))
    sa.prop = 'C10'
    run.prove(sa)
    from contracts import hodk
    hodk.prove_kernels(run, 'C10', run.tier)
    run.discharge()
    C09.bounded(run, 'C10')
    lookup_bounded(run)        # after the fork pools: numba's threading layer must not be initialised in the parent before a fork
    run.extra['explanation'] = ('fast_concatenate proved for every thread count by the E1 engine; gen_cent and gen_sats proved against a postcondition that does not mention Nthread '
                                '(host q with code c sits in row RK(c, q); lengths RK(c, H); lemmas RK_strict / RK_onto: every row written exactly once; prange footprints '
                                'of distinct threads disjoint; gstart[t, c] = RK(c, hstart[t]) links count and fill pass); the assembly tail of gen_gals is proved under the fast_concatenate contract (its postcondition does not mention Nthread); the composed catalogue is '
                                'checked by the bounded stand-in: bitwise identity across thread counts and equality with a thread-free sequential reference')
    run.assumptions += ['np.rint(np.linspace(0, H, T+1)).astype(int64) is non-decreasing from 0 to H (assumed library contract)',
                        'gen_cent / gen_sats: cumsum block contract and occupation functions as uninterpreted functions (see C09)']


def lookup_bounded(run):
    """the real _searchsorted_parallel for every thread count on particle id lists that are NOT globally sorted (staging re-sorts the
    halos but leaves particles grouped slab by slab), empty inputs, ids below / above / between the halo ids"""
    import numba
    import numpy as np
    C12 = __import__('contracts.C12', fromlist=['x'])
    hod = C12.import_hod()
    rng = np.random.default_rng(run.seed + 5)
    nev, bad = 0, None
    cases = []
    for H in (0, 1, 2, 7, 40):
        a = np.sort(rng.choice(10 * H + 5, size=H, replace=False)).astype(np.int64)
        for P in (0, 1, 3, 25, 101):
            b = rng.integers(-2, 10 * H + 8, size=P).astype(np.int64)
            if H and P:
                b[:: 2] = rng.choice(a, size=len(b[:: 2]))       # present ids, in no particular order
            cases.append((a, b))
    nmax = numba.config.NUMBA_NUM_THREADS
    try:
        for a, b in cases:
            want = np.searchsorted(a, b)
            for nt in sorted({1, 2, 3, 7, nmax}):
                if nt > nmax:
                    continue
                numba.set_num_threads(nt)
                try:
                    got = hod._searchsorted_parallel(a, b)
                except Exception as ex:      # noqa
                    got = None
                    why = f'raised {ex!r}'
                nev += 1
                if got is None or not np.array_equal(got, want):
                    bad = (dict(a=a.tolist(), b=b.tolist(), nthread=nt),
                           f'_searchsorted_parallel with {nt} threads: ' + (why if got is None else f'{got.tolist()} != searchsorted {want.tolist()}'))
                    break
            if bad:
                break
    finally:
        numba.set_num_threads(nmax)
    if bad:
        run.bounded_violation('particle host lookup depends on the thread count / particle order', bad[0], bad[1])
    run.add_bounded('real _searchsorted_parallel vs numpy.searchsorted for thread counts 1, 2, 3, 7, max', nev, len(cases),
                    'halo id tables of 0/1/2/7/40 sorted distinct ids x particle lists of 0/1/3/25/101 ids in arbitrary order (present, absent, below, above)',
                    [dict(a=cases[-1][0][:5].tolist(), b=cases[-1][1][:8].tolist())])


def replay_file(rec, repo):
    return C09.replay_file(rec, repo)
