"""C10 - the galaxy catalogue is identical for every thread count.

* E1 proofs on the real ASTs: fast_concatenate returns a1 ++ a2 for every Nthread >= 1 (serial branch, parallel branch with the
  proportional thread split, empty operands), every output index written by exactly one prange iteration (footprints disjoint,
  postcondition covers all indices);  _searchsorted_parallel (parallel host lookup) under C12.
* bounded stand-in for the two-pass kernels gen_cent / gen_sats: the real gen_gals for thread counts 1, 2, 3, 7, 16 on host tables of
  0, 1, 2, 5, 17, 61 (... 200) hosts - more threads than hosts, sizes not divisible by the thread count, empty tables - must be
  BITWISE identical column by column (and equal to the sequential reference of C09, whose definition contains no thread count).
"""
from contracts import C09


def check(run):
    run.level = 'other'
    for m in ('serial', 'parallel'):
        s = C09.spec_concat(m)
        s.prop = 'C10'
        run.prove(s)
    for w in (1, 2):
        s = C09.spec_concat_empty(w)
        s.prop = 'C10'
        run.prove(s)
    sa = C09.spec_assembly(('LRG', 'ELG', 'QSO'))
    sa.prop = 'C10'
    run.prove(sa)
    from contracts import hodk
    hodk.prove_kernels(run, 'C10', run.tier)
    run.discharge()
    C09.bounded(run, 'C10')
    run.extra['explanation'] = ('fast_concatenate proved for every thread count by the E1 engine; gen_cent and gen_sats proved against a postcondition that does not mention Nthread '
                                '(host q with code c sits in row RK(c, q); lengths RK(c, H); lemmas RK_strict / RK_onto: every row written exactly once; prange footprints '
                                'of distinct threads disjoint; gstart[t, c] = RK(c, hstart[t]) links count and fill pass); the assembly tail of gen_gals is proved under the fast_concatenate contract (its postcondition does not mention Nthread); the composed catalogue is '
                                'checked by the bounded stand-in: bitwise identity across thread counts and equality with a thread-free sequential reference')
    run.assumptions += ['np.rint(np.linspace(0, H, T+1)).astype(int64) is non-decreasing from 0 to H (assumed library contract)',
                        'gen_cent / gen_sats: cumsum block contract and occupation functions as uninterpreted functions (see C09)']


def replay_file(rec, repo):
    return C09.replay_file(rec, repo)
