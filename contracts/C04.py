"""C04 - RVint and PID bit fields decode exactly per the documented layout.

Spec functions below are written from the property statement (bit ranges), with z3 Extract on the raw word; the code's
shift/mask arithmetic (with numba's integer typing) must be proved equal to them for all 2^32 / 2^64 words.
Non-interference ("each field is unaffected by the other bits") is a corollary: every spec function reads only its
own bit range.
"""
import itertools
import random

import numpy as np
import z3

from pyvc.engine import FnSpec, LoopSpec, CalleeSpec, SV, Arr

FILE = 'abacusnbody/data/bitpacked.py'
PIDMASK = 0x7FFF | (0x7FFF << 16) | (0x7FFF << 32)


# ------------------------------------------------------------------ spec (ghost) functions
def _real(eng, x):
    return eng.toreal(eng.tosv(x)).t


def ghosts(g):
    """opaque spec functions with definitional axioms (quantified invariants mention only the symbols)"""
    R = z3.ToReal

    # position = (signed upper 20 bits) x BoxSize/1e6
    g.define('RVPOS', ['i32', 'real'], 'real',
             lambda w, box: SV(R(z3.BV2Int(z3.Extract(31, 12, w.t), True)) * (box.t / z3.RealVal(1000000)), 'real'))
    # velocity = (lower 12 bits - 2048) x 6000/2048
    g.define('RVVEL', ['i32'], 'real',
             lambda w: SV((R(z3.BV2Int(z3.Extract(11, 0, w.t), False)) - 2048) * z3.RealVal('6000/2048'), 'real'))
    for k in range(3):
        # three 15-bit Lagrangian indices at bits 0-14, 16-30, 32-46 (as int16); position = index x BoxSize/ppd - BoxSize/2
        g.define(f'LIDX{k}', ['u64'], 'i16', lambda p, k=k: SV(z3.ZeroExt(1, z3.Extract(14 + 16 * k, 16 * k, p.t)), 'i16'))
        g.define(f'LPOS{k}', ['u64', 'real', 'int'], 'real',
                 lambda p, box, ppd, k=k: SV(R(z3.BV2Int(z3.Extract(14 + 16 * k, 16 * k, p.t), False)) * (box.t / R(ppd.t)) - box.t / 2, 'real'))
    # tagged bit 48; squared 10-bit density (bits 49-58); id with every non-id bit cleared
    g.define('TAG', ['u64'], 'u8', lambda p: SV(z3.ZeroExt(7, z3.Extract(48, 48, p.t)), 'u8'))

    def dens(p):
        d = R(z3.BV2Int(z3.Extract(58, 49, p.t), False))
        return SV(d * d, 'real')
    g.define('DENS', ['u64'], 'real', dens)
    g.define('PID', ['u64'], 'i64', lambda p: SV(p.t & z3.BitVecVal(PIDMASK, 64), 'i64'))


def rows(arr, fn, cond, upto):
    """one quantified clause per column (small obligations)"""
    return [f'implies({cond} is not None, forall(r, 0, {upto}, {arr}[r, {c}] == {fn.format(c=c)}))' for c in range(3)]


def elem_hints(clauses):
    """per-element facts proved (quantifier-free, definitions unfolded) before the quantified invariant is re-established"""
    out = []
    for c in clauses:
        # 'implies(X is not None, forall(r, 0, i, BODY))' -> 'implies(X is not None, BODY[r := i-1])'
        head, body = c.split(', forall(r, 0, i, ', 1)
        body = body[:-2]
        out.append(head + ', ' + body.replace('[r,', '[i - 1,').replace('[r]', '[i - 1]') + ')')
    return out


def rv_clauses(upto):
    return rows('posout', 'RVPOS(intdata[r, {c}], boxsize)', 'posout', upto) + \
        rows('velout', 'RVVEL(intdata[r, {c}])', 'velout', upto)


RV_ENS = rv_clauses('len(intdata)')
RV_INV = rv_clauses('i')
RV_REQ = ['implies(posout is not None, len(posout) >= len(intdata))',
          'implies(velout is not None, len(velout) >= len(intdata))']


def pid_clauses(upto):
    return [
        f'implies(pid is not None, forall(r, 0, {upto}, pid[r] == PID(packed[r])))',
        f'implies(tagged is not None, forall(r, 0, {upto}, tagged[r] == TAG(packed[r])))',
        f'implies(density is not None, forall(r, 0, {upto}, density[r] == DENS(packed[r])))',
    ] + rows('lagr_pos', 'LPOS{c}(packed[r], box, ppd)', 'lagr_pos', upto) + \
        rows('lagr_idx', 'LIDX{c}(packed[r])', 'lagr_idx', upto)


PID_REQ = ['ppd >= 1'] + [f'implies({o} is not None, len({o}) >= len(packed))'
                           for o in ('pid', 'lagr_pos', 'tagged', 'density', 'lagr_idx')]
PID_OUT = dict(pid='i64[:]', lagr_pos='real[:,3]', tagged='u8[:]', density='real[:]', lagr_idx='i16[:,3]')


def spec_rvint_kernel(pos, vel):
    return FnSpec(FILE, '_unpack_rvint', prop='C04', mode='bv', name=f'_unpack_rvint[pos={pos},vel={vel}]',
                  args=dict(intdata='i32[:,3]!ro', boxsize='real', posout='real[:,3]' if pos else None,
                            velout='real[:,3]' if vel else None),
                  ghosts=ghosts, requires=RV_REQ, ensures=RV_ENS, frame=['posout', 'velout'],
                  loops={0: LoopSpec(invariant=RV_INV, asserts=elem_hints(RV_INV))})


def spec_pids_kernel(sel):
    args = dict(packed='u64[:]!ro', box='real', ppd='int')
    for o, d in PID_OUT.items():
        args[o] = d if o in sel else None
    return FnSpec(FILE, '_unpack_pids', prop='C04', mode='bv', name='_unpack_pids[' + ','.join(sorted(sel)) + ']',
                  args=args, ghosts=ghosts, requires=PID_REQ, ensures=pid_clauses('len(packed)'),
                  frame=list(PID_OUT), loops={0: LoopSpec(invariant=pid_clauses('i'), asserts=elem_hints(pid_clauses('i')))})


RV_CALLEE = CalleeSpec(['intdata', 'boxsize', 'posout', 'velout'], requires=RV_REQ, ensures=RV_ENS,
                       frame=dict(posout=None, velout=None))
PID_CALLEE = CalleeSpec(['packed', 'box', 'ppd', 'pid', 'lagr_pos', 'tagged', 'density', 'lagr_idx'],
                        requires=PID_REQ, ensures=pid_clauses('len(packed)'),
                        frame={k: None for k in PID_OUT},
                        defaults=dict(pid=None, lagr_pos=None, tagged=None, density=None, lagr_idx=None))


def spec_rvint_wrapper(posmode, velmode):
    """posmode/velmode in {'alloc' (None), 'skip' (False), 'given' (array)}"""
    def arg(m):
        return {'alloc': None, 'skip': False, 'given': 'real[:,3]'}[m]

    def ens(m, which, fn):
        k = 0 if which == 'posout' else 1
        if m == 'alloc':
            body = ' and '.join(f'result[{k}][r, {c}] == {fn.format(c=c)}' for c in range(3))
            return [f'len(result[{k}]) == len(intdata)', f'forall(r, 0, len(intdata), {body})']
        if m == 'skip':
            return [f'result[{k}] == 0']
        body = ' and '.join(f'{which}[r, {c}] == {fn.format(c=c)}' for c in range(3))
        return [f'result[{k}] == len(intdata)', f'forall(r, 0, len(intdata), {body})']
    req = []
    if posmode == 'given':
        req.append('len(posout) >= len(intdata)')
    if velmode == 'given':
        req.append('len(velout) >= len(intdata)')
    return FnSpec(FILE, 'unpack_rvint', prop='C04', mode='bv', name=f'unpack_rvint[pos={posmode},vel={velmode}]',
                  args=dict(intdata='i32[:,3]!ro', boxsize='real', posout=arg(posmode), velout=arg(velmode)),
                  ghosts=ghosts, requires=req, callees={'_unpack_rvint': RV_CALLEE},
                  ensures=ens(posmode, 'posout', 'RVPOS(intdata[r, {c}], boxsize)') + ens(velmode, 'velout', 'RVVEL(intdata[r, {c}])'),
                  allow_raise=[], frame=['posout', 'velout'])


def spec_pids_wrapper(sel):
    flags = {o: (o in sel) for o in PID_OUT}
    ens = [f'sorted(list(result.keys())) == {sorted(sel)!r}']
    for o in sel:
        fn = dict(pid='result["pid"][r] == PID(packed[r])', tagged='result["tagged"][r] == TAG(packed[r])',
                  density='result["density"][r] == DENS(packed[r])',
                  lagr_pos=' and '.join(f'result["lagr_pos"][r, {c}] == LPOS{c}(packed[r], box, ppd)' for c in range(3)),
                  lagr_idx=' and '.join(f'result["lagr_idx"][r, {c}] == LIDX{c}(packed[r])' for c in range(3)))[o]
        ens += [f'len(result["{o}"]) == len(packed)', f'forall(r, 0, len(packed), {fn})']
    return FnSpec(FILE, 'unpack_pids', prop='C04', mode='bv', name='unpack_pids[' + ','.join(sorted(sel)) + ']',
                  args=dict(packed='u64[:]!ro', box='real', ppd='int', **flags), ghosts=ghosts,
                  requires=['ppd >= 1'], callees={'_unpack_pids': PID_CALLEE}, ensures=ens, frame=[])


def spec_empty_arrays(unpack_bits):
    if isinstance(unpack_bits, bool):
        want = ['pid', 'lagr_pos', 'tagged', 'density', 'lagr_idx', 'packedpid'] if unpack_bits else ['pid']
    else:
        want = [unpack_bits] if isinstance(unpack_bits, str) else list(unpack_bits)
    ens = [f'sorted(list(result.keys())) == {sorted(want)!r}'] + [f'len(result["{o}"]) == N' for o in want]
    return FnSpec(FILE, 'empty_bitpacked_arrays', prop='C04', mode='bv', name=f'empty_bitpacked_arrays[{unpack_bits!r}]',
                  args=dict(N='int', unpack_bits=('=' + unpack_bits) if isinstance(unpack_bits, str) else unpack_bits),
                  requires=['N >= 0'], ensures=ens)


# ------------------------------------------------------------------ independent reference decoder (plain python ints)
def ref_rvint(w, box):
    u = int(w) & 0xFFFFFFFF
    hi = u >> 12
    if hi >= 1 << 19:
        hi -= 1 << 20
    return hi * box / 1e6, ((u & 0xFFF) - 2048) * 6000.0 / 2048


def ref_pid(p, box, ppd):
    p = int(p)
    idx = [(p >> s) & 0x7FFF for s in (0, 16, 32)]
    return dict(lagr_idx=idx, lagr_pos=[i * box / ppd - box / 2 for i in idx], tagged=(p >> 48) & 1,
                density=((p >> 49) & 0x3FF) ** 2, pid=p & PIDMASK)


def close(a, b, rel, scale=1.0):
    return abs(float(a) - float(b)) <= rel * max(1.0, abs(float(b)), abs(scale))


def judge_rvint(words, box, fdt=np.float32):
    """words: list of N x 3 int32 values. every output-selection mode of the real wrapper vs. the reference"""
    from abacusnbody.data.bitpacked import unpack_rvint
    data = np.array(words, dtype=np.int64).astype(np.uint32).view(np.int32).reshape(-1, 3) if len(words) else np.zeros((0, 3), np.int32)
    N = len(data)
    rel = 2e-6 if fdt == np.float32 else 1e-12
    for pm, vm in list(itertools.product(('alloc', 'skip', 'given'), repeat=2)) + [('strided', 'strided'), ('strided', 'alloc'), ('skip', 'strided')]:
        # 'strided': the caller's outputs are non-contiguous views (two halves of one interleaved (N, 6) buffer, every second row of a
        # taller array) - supplied arrays must be filled whatever their memory layout
        inter = np.full((N, 6), np.nan, dtype=fdt)
        tall = np.full((2 * N, 3), np.nan, dtype=fdt)
        po = {'alloc': None, 'skip': False, 'given': np.full((N, 3), np.nan, dtype=fdt), 'strided': inter[:, :3]}[pm]
        vo = {'alloc': None, 'skip': False, 'given': np.full((N, 3), np.nan, dtype=fdt), 'strided': tall[::2]}[vm]
        pm, vm = pm.replace('strided', 'given'), vm.replace('strided', 'given')
        try:
            r = unpack_rvint(data, box, float_dtype=fdt, posout=po, velout=vo)
        except IndexError as ex:
            return f'mode pos={pm} vel={vm}: out-of-bounds access {ex}'
        P = r[0] if pm == 'alloc' else po
        V = r[1] if vm == 'alloc' else vo
        if pm == 'skip' and r[0] != 0 or vm == 'skip' and r[1] != 0:
            return f'mode pos={pm} vel={vm}: skipped output not reported as 0'
        if pm == 'given' and r[0] != N or vm == 'given' and r[1] != N:
            return f'mode pos={pm} vel={vm}: count {r} != {N}'
        for i in range(N):
            for c in range(3):
                rp, rv = ref_rvint(data[i, c], box)
                if pm != 'skip' and not close(P[i, c], rp, rel):
                    return f'mode pos={pm} vel={vm} word={int(data[i, c]) & 0xFFFFFFFF:#010x}: pos {P[i, c]} expected {rp}'
                if vm != 'skip' and not close(V[i, c], rv, rel):
                    return f'mode pos={pm} vel={vm} word={int(data[i, c]) & 0xFFFFFFFF:#010x}: vel {V[i, c]} expected {rv}'
    return None


def judge_pids(words, box, ppd, fdt=np.float32, selections=None):
    from abacusnbody.data.bitpacked import unpack_pids
    packed = np.array([int(w) & (2 ** 64 - 1) for w in words], dtype=np.uint64)
    rel = 2e-6 if fdt == np.float32 else 1e-12
    names = ['pid', 'lagr_pos', 'tagged', 'density', 'lagr_idx']
    sels = selections or [s for k in range(0, 6) for s in itertools.combinations(names, k)]
    for sel in sels:
        kw = {o: True for o in sel}
        try:
            r = unpack_pids(packed, box=box, ppd=ppd, float_dtype=fdt, **kw)
        except IndexError as ex:
            return f'selection {sel}: out-of-bounds access {ex}'
        if sorted(r) != sorted(sel):
            return f'selection {sel}: returned keys {sorted(r)}'
        for i, p in enumerate(packed):
            ref = ref_pid(p, box, int(round(ppd)))
            for o in sel:
                got = r[o][i]
                want = ref[o]
                if o in ('lagr_pos', 'lagr_idx'):
                    ok = all(close(g, w, rel, box) for g, w in zip(got, want))     # idx*box/ppd - box/2 cancels at scale box
                else:
                    ok = close(got, want, rel)
                if not ok:
                    return f'selection {sel} word={int(p):#018x}: {o}={got} expected {want}'
    return None


BOUNDARY32 = [0, 1, 0xFFF, 0x1000, 0x800, 0x7FF, 0x7FFFFFFF, 0x80000000, 0xFFFFFFFF, 0xFFFFF000, 0x80000FFF, 0x7FFFF000,
              0x00001800, 0xABCDE123]
BOUNDARY64 = [0, 0x7FFF, 0x8000, 0x7FFF0000, 0x80000000, 0x7FFF00000000, 0x800000000000, 1 << 48, 0x3FF << 49, 1 << 59,
              2 ** 64 - 1, (2 ** 64 - 1) ^ PIDMASK, PIDMASK, 0x07FE000000000000, 0x0002000000000000, 0x8000800080008000]


def words_from_model(model, name, n3=True):
    v = model.get(name) if model else None
    out = []
    if isinstance(v, list):
        for row in v:
            if isinstance(row, list):
                out += [int(x) for x in row[:3] if isinstance(x, int)]
            elif isinstance(row, int):
                out.append(row)
    return out


def replayer_rvint(obl, model):
    cases = []
    if model is not None:
        ws = words_from_model(model, 'intdata')
        ws = (ws + [0, 0, 0])[:max(3, 3 * (len(ws) // 3))]
        cases.append(ws)
    else:
        rnd = random.Random(4)
        b = BOUNDARY32 + [rnd.getrandbits(32) for _ in range(40)]
        cases.append((b + [0, 0])[:3 * (len(b) // 3)])
    for ws in cases:
        for fdt in (np.float32, np.float64):
            why = judge_rvint([ws[i:i + 3] for i in range(0, len(ws) - len(ws) % 3, 3)], 2000.0, fdt)
            if why:
                return True, f'unpack_rvint words={[hex(w & 0xFFFFFFFF) for w in ws[:12]]} box=2000 {fdt.__name__}: {why}'
    return False, 'no case reproduced'


def replayer_pids(obl, model):
    if model is not None:
        ws = [w for w in words_from_model(model, 'packed')] or [0]
    else:
        rnd = random.Random(5)
        ws = BOUNDARY64 + [rnd.getrandbits(64) for _ in range(40)]
    for fdt in (np.float32, np.float64):
        why = judge_pids(ws, 2000.0, 1536, fdt)
        if why:
            return True, f'unpack_pids words={[hex(w) for w in ws[:8]]} box=2000 ppd=1536 {fdt.__name__}: {why}'
    return False, 'no case reproduced'


def bounded(run):
    """run-time contract check of the real (compiled) wrappers: validates the encoder's typing rules and covers
    float32 rounding, flat/strided inputs and supplied-array handling, which the proof does not model"""
    rnd = random.Random(run.seed + 11)
    n = 300 if run.tier == 'quick' else 5000
    ws32 = BOUNDARY32 + [rnd.getrandbits(32) for _ in range(n)]
    ws32 = ws32[:3 * (len(ws32) // 3)]
    rows3 = [ws32[i:i + 3] for i in range(0, len(ws32), 3)]
    nev = 0
    for box in (2000.0, 1.0, 500.5):
        for fdt in (np.float32, np.float64):
            why = judge_rvint(rows3, box, fdt)
            nev += 9 * len(ws32)
            if why:
                run.bounded_violation('unpack_rvint output-selection x dtype sweep', dict(box=box, dtype=fdt.__name__), why)
    why = judge_rvint([], 2000.0)
    if why:
        run.bounded_violation('unpack_rvint empty input', {}, why)
    ws64 = BOUNDARY64 + [rnd.getrandbits(64) for _ in range(n)]
    # every value of the small fields crossed with all-zero / all-one / random other bits
    for v in range(1024):
        others = rnd.getrandbits(64) & ~(0x3FF << 49)
        ws64 += [v << 49, (v << 49) | ((2 ** 64 - 1) & ~(0x3FF << 49)), (v << 49) | others]
    for t in (0, 1):
        ws64 += [t << 48, (t << 48) | ((2 ** 64 - 1) & ~(1 << 48))]
    for box, ppd in ((2000.0, 6912), (1.0, 1), (500.0, 1536)):
        for fdt in (np.float32, np.float64):
            sels = None if run.tier == 'thorough' else [(), ('pid',), ('lagr_idx',), ('lagr_pos', 'density'), ('tagged', 'pid', 'lagr_idx'),
                                                          ('pid', 'lagr_pos', 'tagged', 'density', 'lagr_idx')]
            why = judge_pids(ws64, box, ppd, fdt, sels)
            nev += len(ws64) * (len(sels) if sels else 32)
            if why:
                run.bounded_violation('unpack_pids selection x dtype sweep', dict(box=box, ppd=ppd, dtype=fdt.__name__), why)
    # ppd handed over as a float the way headers store it (NP**(1/3): a few ulp below the integer; also the neighbours of the integer)
    far = [(k << 32) | (k << 16) | k for k in (0, 1, 767, 1535, 6911)]
    for box, ppd in ((2000.0, float(6912 ** 3) ** (1 / 3)), (2000.0, float(np.nextafter(6912.0, 0))), (2000.0, float(np.nextafter(6912.0, 1e9))), (500.0, float(1536 ** 3) ** (1 / 3))):
        why = judge_pids(far + BOUNDARY64[:6], box, ppd, np.float64, [('lagr_pos',), ('pid', 'lagr_pos', 'lagr_idx')])
        nev += 22
        if why:
            run.bounded_violation('unpack_pids selection x dtype sweep', dict(box=box, ppd=repr(ppd), dtype='float64'), f'ppd={ppd!r} (float): {why}')
    run.add_bounded('compiled unpack_rvint / unpack_pids vs independent integer decoder', nev, len(set(ws32)) + len(set(ws64)),
                    'boundary words + seeded random words; all 9 rvint output modes incl. strided supplied outputs; pid selections; float32/float64; 3 (BoxSize, ppd) pairs; ppd given as a float a few ulp off the integer; all 1024 density values x 3 backgrounds',
                    [dict(word=hex(ws32[3]), box=2000.0), dict(word=hex(ws64[5]), box=2000.0, ppd=6912)])


def quantum_lemmas(run):
    """for a value x and quantum s > 0: the code q = round(x/s) in range decodes to q*s with |q*s - x| <= s/2"""
    x, s = z3.Reals('x s')
    q = z3.Int('q')
    # q is a nearest integer to x/s  (either rounding direction at ties)
    nearest = z3.And(z3.ToReal(q) - z3.RealVal('1/2') <= x / s, x / s <= z3.ToReal(q) + z3.RealVal('1/2'))
    err = z3.ToReal(q) * s - x
    run.lemma('lemma.half_quantum[|round(x/s)*s - x| <= s/2]', [s > 0, nearest], z3.And(err <= s / 2, -err <= s / 2))
    # the decoders are injective on their field: distinct field values decode to distinct outputs (s != 0)
    a, b = z3.Ints('a b')
    run.lemma('lemma.decode_injective[a*s == b*s -> a == b]', [s != 0, z3.ToReal(a) * s == z3.ToReal(b) * s], a == b)


def check(run):
    run.level = 'proof'
    for pos, vel in itertools.product([True, False], repeat=2):
        run.prove(spec_rvint_kernel(pos, vel), replayer_rvint)
    outs = list(PID_OUT)
    sels = [s for k in range(0, 6) for s in itertools.combinations(outs, k)]
    for sel in sels:
        run.prove(spec_pids_kernel(set(sel)), replayer_pids)
    for pm, vm in itertools.product(('alloc', 'skip', 'given'), repeat=2):
        run.prove(spec_rvint_wrapper(pm, vm), replayer_rvint)
    for sel in sels:
        run.prove(spec_pids_wrapper(sel), replayer_pids)
    fields = ['pid', 'lagr_pos', 'tagged', 'density', 'lagr_idx', 'packedpid']
    ub = [True, False] + fields + [list(s) for k in (0, 2, 3, 6) for s in itertools.combinations(fields, k)][:12]
    for u in ub:
        run.prove(spec_empty_arrays(u))
    quantum_lemmas(run)
    run.discharge()
    bounded(run)
    run.assumptions += [
        'floats are reals: the scale products (BoxSize/1e6, 6000/2048, BoxSize/ppd) are exact; float32 rounding only in the bounded check',
        'numba integer typing rules (int32 op uint32 -> int64, uint64 ** 2 -> int64, stores truncate) as observed on numba 0.67; validated on every run by the compiled-kernel cross-check',
        'little-endian host (bit positions are value-level, not byte-level)',
        'reshape(-1,3)/view of an (N,3) array is the identity (flat inputs only in the bounded check)',
    ]
    run.trusted += ['z3 bv2int/int-blasting', 'numpy allocation (np.empty) returns an array of the requested shape']


def replay_file(rec, repo):
    fn = rec.get('function', '') or rec.get('obligation', '')
    if 'rvint' in fn:
        return replayer_rvint(None, rec.get('model'))[0] or replayer_rvint(None, None)[0]
    return replayer_pids(None, rec.get('model'))[0] or replayer_pids(None, None)[0]
