"""C11 - compiled kernels never access memory outside their arrays.

Every subscript of every kernel under contract is a bounds obligation (numba semantics: a negative index wraps once, slices
clamp, no check afterwards) discharged under the routine's documented precondition.  This check re-generates, from the current
source, the obligations of the kernels that have functional contracts elsewhere (in their safety configuration) and adds
safety-only contracts for the remaining kernels of the property's list.

Kernels covered deductively here:
  util.cumsum (C19) | bitpacked._unpack_rvint, _unpack_pids (C04) | pack9._expand_to_short, _unpack_pack9 (C15) |
  compaso _unpack_rv_subsamples, _unpack_pid_subsamples (C01 safety) | tsc._zeros_parallel, _wrap_inplace, _tsc_parallel (C07),
  partition_parallel (C17), _rightwrap/_tsc_scatter (C06 safety) | cic.cic_serial (C06 safety) |
  power_spectrum factorial, n_choose_k, P_n, bin_kmu, bin_kppi (C08), linear_interp, expand_poles_to_3d, get_smoothing,
  get_delta_mu2, shift_field_fft, normalize_field (in-place), _normalize | GRAND_HOD.fast_concatenate, wrap (C09),
  abacus_hod._searchsorted_parallel (C12) | menv.msum_core.
GRAND_HOD.gen_cent / gen_sats: bounds and prange obligations of the functional contracts in contracts/hodk.py (box and light-cone observer).
Not covered at all: getPointsOnSphere, compute_fast_NFW, gen_sats_nfw, _compute_ngal_*, tpcf_corrfunc, shear, zcv/*, prepare_sim.
"""
import itertools
import random

import numpy as np
import z3

from pyvc.engine import FnSpec, LoopSpec, CalleeSpec, SV, Arr, DT
from contracts import C01, C04, C06, C07, C08, C09, C12, C15, C17, C19

TSC = 'abacusnbody/analysis/tsc.py'
PS = 'abacusnbody/analysis/power_spectrum.py'
MENV = 'abacusnbody/hod/menv.py'


# ------------------------------------------------------------------ new safety-only contracts
def spec_zeros_parallel():
    return FnSpec(TSC, '_zeros_parallel', prop='C11', name='_zeros_parallel', args=dict(shape=('=',), dtype=DT('real', 'float32')),
                  requires=[]) if False else FnSpec(
        TSC, '_zeros_parallel', prop='C11', name='_zeros_parallel',
        args=dict(shape=(SV(z3.Int('n0'), 'int'), SV(z3.Int('n1'), 'int'), SV(z3.Int('n2'), 'int')), dtype=DT('real', 'float32')),
        requires=['shape[0] >= 0 and shape[1] >= 0 and shape[2] >= 0'],
        ensures=['forall((a, b, c), 0 <= a and a < shape[0] and 0 <= b and b < shape[1] and 0 <= c and c < shape[2], result[a, b, c] == 0)'],
        loops={0: LoopSpec(invariant=['forall((a, b, c), 0 <= a and a < i and 0 <= b and b < shape[1] and 0 <= c and c < shape[2], arr[a, b, c] == 0)'],
                           writes=dict(arr=('a,b,c', 'a == i')))})


def spec_wrap_inplace():
    inside = ' and '.join(f'-box <= pos[q, {c}] and pos[q, {c}] < 2 * box' for c in range(3))
    done = lambda up: [f'forall(q, 0, {up}, ' + ' and '.join(f'0 <= pos[q, {c}] and pos[q, {c}] <= box' for c in range(3)) + ')',      # noqa: E731
                       f'forall(q, {up}, len(pos), ' + ' and '.join(f'pos[q, {c}] == old(pos[q, {c}])' for c in range(3)) + ')']
    same = ['forall(q, 0, len(pos), ' + ' and '.join(f'(pos[q, {c}] == old(pos[q, {c}]) or pos[q, {c}] == old(pos[q, {c}]) - box or pos[q, {c}] == old(pos[q, {c}]) + box)'
                                                    for c in range(3)) + ')']
    return FnSpec(TSC, '_wrap_inplace', prop='C11', name='_wrap_inplace', args=dict(pos='real[:,3]', box='real'),
                  requires=['box > 0', f'forall(q, 0, len(pos), {inside})'],
                  ensures=done('len(pos)')[:1],       # positions out of range by up to one box come back into [0, box] (box itself possible)
                  loops={0: LoopSpec(invariant=done('i'), writes=dict(pos=('q,c', 'q == i')))})


LIN_REQ = ['len(x) >= 2', 'x[1] > x[0]', 'x[len(x) - 1] == x[0] + (len(x) - 1) * (x[1] - x[0])', 'len(y) >= len(x)']
LIN_CALLEE = CalleeSpec(['xd', 'x', 'y'], requires=LIN_REQ, result='real')


def spec_linear_interp():
    return FnSpec(PS, 'linear_interp', prop='C11', name='linear_interp', args=dict(xd='real', x='real[:]!ro', y='real[:]!ro'),
                  requires=LIN_REQ, name_values=['dx', 'f'],
                  hints={'fl = ': ['f >= 0', 'f * dx == xd - x[0]', 'f * dx < (len(x) - 1) * dx', 'f < len(x) - 1']})


def mesh_loops(arrname, extra=None):
    return {0: LoopSpec(invariant=[], writes={arrname: ('a,b,c', 'a == i')}), 1: LoopSpec(invariant=[]), 2: LoopSpec(invariant=[]), **(extra or {})}


def spec_get_smoothing():
    return FnSpec(PS, 'get_smoothing', prop='C11', name='get_smoothing', args=dict(n1d='int', L='real', R='real', dtype=DT('real', 'float32')),
                  requires=['n1d >= 1', 'L > 0'], loops=mesh_loops('Sk'))


def spec_get_delta_mu2():
    return FnSpec(PS, 'get_delta_mu2', prop='C11', name='get_delta_mu2',
                  args=dict(delta='real[:,:,:]!ro', n1d='int', dtype_c=DT('real', 'complex64'), dtype_f=DT('real', 'float32')),
                  requires=['n1d >= 1', 'delta.shape[0] == n1d and delta.shape[1] == n1d and delta.shape[2] == n1d // 2 + 1'], loops=mesh_loops('delta_mu2'))


def spec_shift_field_fft():
    return FnSpec(PS, 'shift_field_fft', prop='C11', name='shift_field_fft',
                  args=dict(field_fft='real[:,:,:]', field_shift_fft='real[:,:,:]!ro', n1d='int', L='real', d='real', dtype=DT('real', 'float32')),
                  requires=['n1d >= 1', 'L > 0'] + [f'{a}.shape[0] == n1d and {a}.shape[1] == n1d and {a}.shape[2] == n1d // 2 + 1' for a in ('field_fft', 'field_shift_fft')],
                  loops=mesh_loops('field_fft'))


def spec_expand_poles():
    return FnSpec(PS, 'expand_poles_to_3d', prop='C11', name='expand_poles_to_3d',
                  args=dict(k_ell='real[:]!ro', P_ell='real[:,:]!ro', n1d='int', L='real', poles='int[:]!ro', dtype=DT('real', 'float32')),
                  requires=['n1d >= 1', 'L > 0', 'len(k_ell) >= 2', 'k_ell[1] > k_ell[0]',
                            'k_ell[len(k_ell) - 1] == k_ell[0] + (len(k_ell) - 1) * (k_ell[1] - k_ell[0])',
                            'P_ell.shape[0] == len(poles) and P_ell.shape[1] == len(k_ell)', 'forall(q, 0, len(poles), 0 <= poles[q] and poles[q] <= 10)'],
                  allow_raise=['AssertionError'], callees={'linear_interp': LIN_CALLEE, 'P_n': C08.PN_CALLEE},
                  loops=mesh_loops('Pk', {3: LoopSpec(invariant=[])}))


def spec_normalize():
    return FnSpec(PS, '_normalize', prop='C11', name='_normalize', args=dict(field='real[:,:,:]', a='real', nthread='int'), requires=['nthread >= 1'],
                  loops={0: LoopSpec(invariant=[], writes=dict(flatfield=('q', 'q == i')))})


def spec_normalize_field():
    return FnSpec(PS, 'normalize_field', prop='C11', name='normalize_field[inplace]',
                  args=dict(field='real[:,:,:]', tot_weight='real', inplace=True, nthread='int'), requires=['nthread >= 1', 'tot_weight != 0'],
                  loops={0: LoopSpec(invariant=[], writes=dict(flatfield=('q', 'q == i')))})


def spec_msum_core():
    return FnSpec(MENV, 'msum_core', prop='C11', name='msum_core',
                  args=dict(msum_out='real[:]', masses='real[:]!ro', inds='int[:]!ro', starts='int[:]!ro', sign='real', nthread='int'),
                  requires=['nthread >= 1', 'len(starts) >= 1', 'len(msum_out) >= len(starts) - 1',
                            'forall(q, 0, len(inds), 0 <= inds[q] and inds[q] < len(masses))',          # neighbour indices address the mass table
                            'forall(q, 0, len(starts), 0 <= starts[q] and starts[q] <= len(inds))',
                            'forall(q, 0, len(starts) - 1, starts[q] <= starts[q + 1])'],
                  loops={0: LoopSpec(invariant=[], writes=dict(msum_out=('q', 'q == p')))})


# ------------------------------------------------------------------ safety configurations of kernels with functional contracts elsewhere
def scatter_safety(kind, weights, zthin):
    """_tsc_scatter / cic_serial without the functional invariant: bounds need only the grid-coordinate range hints"""
    s = (C06.spec_tsc if kind == 'tsc' else C06.spec_cic)(weights, zthin)
    gh = C06.grid_hints(kind == 'tsc')
    s.prop, s.name = 'C11', s.name.replace('[', '.safety[', 1)
    s.ensures, s.frame = [], None
    s.loops = {0: LoopSpec(invariant=['implies(weights is None, W == 1)'], body_asserts={'ix = ': gh[0], 'iy = ': gh[1], 'iz = ': gh[2]})}
    return s


def aggregated(tier):
    specs = []
    for initial, final in itertools.product([False, True], repeat=2):
        specs.append(C19.spec(initial, final))
    for pos, vel in itertools.product([True, False], repeat=2):
        specs.append(C04.spec_rvint_kernel(pos, vel))
    outs = list(C04.PID_OUT)
    for sel in ([], outs[:1], outs[1:3], outs):
        specs.append(C04.spec_pids_kernel(set(sel)))
    specs.append(C15.spec_expand())
    for pos, vel in ((True, True), (True, False), (False, True)):
        specs.append(C15.spec_stream(pos, vel))
    for cleaned in (True, False):
        specs.append(C01.spec_zipper_rv({'pos', 'vel', 'rvint'}, cleaned))
        specs.append(C01.spec_zipper_pid({'pid', 'packedpid', 'lagr_idx', 'lagr_pos', 'tagged', 'density'}, cleaned))
    for w in (True, False):
        specs.append(C07.spec_parallel(w))
        for zthin in (False, True):
            specs.append(scatter_safety('tsc', w, zthin))
            specs.append(scatter_safety('cic', w, zthin))
    specs.append(C17.spec(True, 0))
    specs.append(C17.spec(False, 2))
    for wp in (False, True):
        specs.append(C08.spec_kmu(wp))
    specs.append(C08.spec_kppi())
    for n in (0, 1, 4, 10):
        specs.append(C08.spec_Pn(n))
    specs += [C09.spec_concat('serial'), C09.spec_concat('parallel'), C09.spec_wrap(), C12.spec_searchsorted()]
    for s in specs:
        s.prop = 'C11'
    return specs


def new_specs():
    return [spec_zeros_parallel(), spec_wrap_inplace(), spec_linear_interp(), spec_get_smoothing(), spec_get_delta_mu2(), spec_shift_field_fft(),
            spec_expand_poles(), spec_normalize(), spec_normalize_field(), spec_msum_core()]


# ------------------------------------------------------------------ replay under NUMBA_BOUNDSCHECK / py_func
def replayer(obl, model):
    """serial kernels compiled with NUMBA_BOUNDSCHECK=1 (set by the driver), parallel ones as py_func, on boundary inputs"""
    fn = (obl.fn if obl is not None else '') or ''
    replayer.calls = 0
    try:
        if 'linear_interp' in fn or obl is None:
            from abacusnbody.analysis.power_spectrum import linear_interp
            x = np.arange(4, dtype=np.float64)
            y = np.arange(4, dtype=np.float64) * 2
            for xd in (0.0, 1.5, 2.999999, 3.0, 3.5, -1.0):
                linear_interp(xd, x, y)
                replayer.calls += 1
        if 'cumsum' in fn or obl is None:
            # empty and one-element inputs for every flag combination, output of exactly the documented length (interpreted: an
            # out-of-range store raises)
            from abacusnbody.util import cumsum
            f = getattr(cumsum, 'py_func', cumsum)
            for N in (0, 1, 2):
                for initial in (False, True):
                    for final in (False, True):
                        if N - 1 + int(initial) + int(final) < 0:
                            continue             # no output length is acceptable (rejected with ValueError)
                        out = np.zeros(N - 1 + int(initial) + int(final), dtype=np.int64)
                        f(np.arange(N, dtype=np.int64), out, initial=initial, final=final, offset=5)
                        replayer.calls += 1
        if 'msum_core' in fn or obl is None:
            from abacusnbody.hod.menv import msum_core
            out = np.zeros(2)
            msum_core.py_func(out, np.ones(3), np.array([0, 2, 1, 1]), np.array([0, 2, 4]), 1.0, 1)
            replayer.calls += 1
        if '_wrap_inplace' in fn or '_zeros' in fn or obl is None:
            from abacusnbody.analysis.tsc import _wrap_inplace, _zeros_parallel
            _wrap_inplace.py_func(np.array([[-0.5, 1.5, 1.0], [0.0, 0.999, 1.999]]), 1.0)
            _zeros_parallel.py_func((2, 3, 1))
            replayer.calls += 2
        for mod, other in ((C19, 'cumsum'), (C04, '_unpack_'), (C15, 'pack9'), (C06, 'scatter'), (C06, 'cic'), (C17, 'partition'), (C08, 'bin_k'), (C07, '_tsc_parallel')):
            if other in fn:
                rep = getattr(mod, 'replayer', None) or getattr(mod, 'replay_parallel', None)
                if mod is C19:
                    rep = C19.make_replayer(True, True, None)
                elif mod is C04:
                    rep = C04.replayer_rvint if 'rvint' in fn else C04.replayer_pids
                elif mod is C06:
                    rep = C06.replayer('tsc' if 'tsc' in fn else 'cic')
                elif mod is C07:
                    rep = C07.replay_parallel
                if rep:
                    return rep(obl, None)
    except (IndexError, SystemError) as ex:
        return True, f'{fn}: out-of-bounds access on a boundary input: {ex!r}'
    return False, 'no case reproduced'


def check(run):
    run.level = 'proof'
    for s in new_specs() + aggregated(run.tier):
        run.prove(s, replayer)
    from contracts import hodk
    hodk.prove_kernels(run, 'C11', run.tier, lemmas=False)
    run.discharge()
    # bounded: the new kernels on boundary inputs with bounds checking
    ok, detail = replayer(None, None)
    if ok:
        run.bounded_violation('kernel reads or writes out of bounds on a boundary input', {}, detail)
    run.add_bounded('boundary inputs through the bounds-checked / interpreted kernels', replayer.calls, replayer.calls,
                    'linear_interp at/below/above the abscissa range, msum_core, _wrap_inplace, _zeros_parallel (others: see the bounded parts of C04, C06, C08, C15, C17, C19)',
                    [dict(kernel='linear_interp', xd=3.0, x=[0, 1, 2, 3])])
    run.notes.append('gen_cent / gen_sats (box and light-cone observer) are under the functional contracts of contracts/hodk.py, whose bounds / prange obligations are discharged here')
    run.assumptions += ['documented preconditions as transcribed in each contract (positions in [0, BoxSize], uniform interpolation grid, well-formed catalogue offsets, '
                        'neighbour indices inside the mass table, leading pack9 header, poles <= 10)',
                        'complex values abstracted to uninterpreted reals; transcendental functions uninterpreted; reshape(-1) modelled as a 1-D array of prod(shape) elements',
                        'functional invariants that the bounds proofs rely on (e.g. the counting argument of partition_parallel) are re-proved here from the same sidecars',
                        'NOT covered: getPointsOnSphere, compute_fast_NFW, gen_sats_nfw, _compute_ngal_*, tpcf_corrfunc, shear, zcv/*, prepare_sim']


def replay_file(rec, repo):
    return replayer(None, None)[0]
