import sys, numpy as np, os, shutil
import fakeblosc; sys.modules['blosc']=fakeblosc
import asdf, warnings; warnings.simplefilter('ignore')
from abacusnbody.data import compaso_halo_catalog as chc
from abacusnbody.data import bitpacked
from pathlib import Path
import synth
def make_clean(root, gd, nslab, seed=0):
    rng=np.random.default_rng(seed+99)
    cd=Path(root)/'cleaning'/'Sim'/'z0.000'
    (cd/'cleaned_halo_info').mkdir(parents=True,exist_ok=True); (cd/'cleaned_rvpid').mkdir(parents=True,exist_ok=True)
    truth=[]
    for s in range(nslab):
        with asdf.open(gd/'halo_info'/f'halo_info_{s:03d}.asdf') as af:
            n=len(af['data']['N']); N=np.array(af['data']['N'])
        d={}
        cleaned_away=rng.random(n)<0.3
        d['N_total']=np.where(cleaned_away,0,N+rng.integers(0,5,n)).astype(np.uint32)
        d['N_merge']=rng.integers(0,5,n).astype(np.uint32)
        d['haloindex']=np.arange(n).astype(np.uint64); d['is_merged_to']=np.full(n,-1,dtype=np.int64)
        d['haloindex_mainprog']=np.zeros(n,dtype=np.int64); d['v_L2com_mainprog']=np.zeros((n,3),dtype=np.float32)
        rvp={}
        for AB in 'AB':
            npm=np.where(cleaned_away,0,rng.integers(0,3,n)).astype(np.uint32)
            gaps=rng.integers(0,2,n)
            st=np.cumsum(np.concatenate([[gaps[0]],npm[:-1]+gaps[1:]])).astype(np.int64) if n else np.zeros(0,np.int64)
            d[f'npstart{AB}_merge']=st; d[f'npout{AB}_merge']=npm
            tot=int(st[-1]+npm[-1]+1) if n else 0
            rvp[f'rvint_{AB}']=rng.integers(-2**31,2**31,(tot,3)).astype(np.int32)
            rvp[f'packedpid_{AB}']=rng.integers(0,2**63,tot).astype(np.uint64)
        hdr={'TimeSliceRedshiftsPrev':[0.1,0.2]}
        asdf.AsdfFile({'header':hdr,'data':d}).write_to(cd/'cleaned_halo_info'/f'cleaned_halo_info_{s:03d}.asdf')
        asdf.AsdfFile({'header':hdr,'data':rvp}).write_to(cd/'cleaned_rvpid'/f'cleaned_rvpid_{s:03d}.asdf')
def oracle(gd, root, cleaned, AB):
    """independent: list over halos (file order) of rvint rows"""
    out=[]
    slabs=sorted((gd/'halo_info').glob('*.asdf'))
    for s,_ in enumerate(slabs):
        with asdf.open(gd/'halo_info'/f'halo_info_{s:03d}.asdf') as af: st=np.array(af['data']['npstart'+AB]); n=np.array(af['data']['npout'+AB])
        with asdf.open(gd/f'halo_rv_{AB}'/f'halo_rv_{AB}_{s:03d}.asdf') as af: rv=np.array(af['data']['rvint'])
        if cleaned:
            cd=Path(root)/'cleaning'/'Sim'/'z0.000'
            with asdf.open(cd/'cleaned_halo_info'/f'cleaned_halo_info_{s:03d}.asdf') as af:
                Nt=np.array(af['data']['N_total']); ms=np.array(af['data'][f'npstart{AB}_merge']); mn=np.array(af['data'][f'npout{AB}_merge'])
            with asdf.open(cd/'cleaned_rvpid'/f'cleaned_rvpid_{s:03d}.asdf') as af: crv=np.array(af['data'][f'rvint_{AB}'])
        for h in range(len(st)):
            a=rv[int(st[h]):int(st[h])+int(n[h])]
            if cleaned:
                if Nt[h]==0: a=a[:0]
                a=np.concatenate([a,crv[int(ms[h]):int(ms[h])+int(mn[h])]])
            out.append(a)
    return out
if __name__=='__main__':
    shutil.rmtree('cat3',ignore_errors=True)
    gd=synth.make_cat('cat3',nslab=3,nh=(4,0,5)); make_clean('cat3',gd,3)
    for cleaned in (False,True):
        try:
            c=chc.CompaSOHaloCatalog(gd,cleaned=cleaned,subsamples=dict(A=True,B=True,rvint=True,packedpid=True),passthrough=True,fields='all')
        except Exception as e:
            print('passthrough cleaned=',cleaned,'EXC',type(e).__name__,e); continue
        off=0; ok=True
        for AB in 'AB':
            orc=oracle(gd,'cat3',cleaned,AB)
            for h,a in enumerate(orc):
                s0=int(c.halos['npstart'+AB][h]); n0=int(c.halos['npout'+AB][h])
                ok&= (s0==off) and n0==len(a) and np.array_equal(c.subsamples['rvint'][s0:s0+n0],a)
                off+=n0
        print('cleaned',cleaned,'halos',len(c.halos),'subs',len(c.subsamples),'slices ok',ok, 'total ok', off==len(c.subsamples))
    c=chc.CompaSOHaloCatalog(gd,cleaned=True,subsamples=dict(A=True,pos=True,pid=True),unpack_bits=True)
    print(c.halos.colnames[:8], c.subsamples.colnames, len(c.subsamples))
