import numpy as np
from abacusnbody.data import bitpacked, pack9
rng=np.random.default_rng(0)
# rvint
w=rng.integers(-2**31,2**31,(1000,3)).astype(np.int32); w[0]=[-2**31,2**31-1,0]; w[1]=[-1,1,0x800]
box=37.0
p,v=bitpacked.unpack_rvint(w,box,float_dtype=np.float64)
q=(w.astype(np.int64)>>12); vv=(w.astype(np.int64)&0xFFF)-2048
print('rvint',np.array_equal(p,q*(box/1e6)),np.array_equal(v,vv*(6000/2048)))
# pids
a=rng.integers(0,2**64,1000,dtype=np.uint64)
r=bitpacked.unpack_pids(a,box=box,ppd=64,pid=True,lagr_pos=True,tagged=True,density=True,lagr_idx=True,float_dtype=np.float64)
ai=[int(x) for x in a]
ix=np.array([[(x>>s)&0x7FFF for s in (0,16,32)] for x in ai])
print('pid',np.array_equal(r['lagr_idx'],ix), np.allclose(r['lagr_pos'],ix*(box/64)-box/2), np.array_equal(r['tagged'],[(x>>48)&1 for x in ai]),
      np.array_equal(r['density'],[((x>>49)&0x3FF)**2 for x in ai]), np.array_equal(r['pid'],[x&0x7FFF7FFF7FFF for x in ai]))
r2=bitpacked.unpack_pids(a,density=True); print('density alone',np.array_equal(r2['density'],r['density'].astype(np.float32)))
# pack9
def enc(fields):
    f=[x&0xFFF for x in fields]
    c=[ (f[0]>>4)&0xFF, ((f[0]&0xF))|((f[1]>>8)<<4), f[1]&0xFF, (f[2]>>4)&0xFF, (f[2]&0xF)|((f[3]>>8)<<4), f[3]&0xFF, (f[4]>>4)&0xFF, (f[4]&0xF)|((f[5]>>8)<<4), f[5]&0xFF]
    return c
cpd=15; velz=3200.; recs=[]; exp=[]
hdr=None
for i in range(200):
    if i%17==0:
        cell=rng.integers(0,cpd,3); vs=int(rng.integers(100,1500))
        f=[0xFF0, cpd-2000+2048, vs-2000+2048]+[int(c)-2000+2048 for c in cell]
        assert enc(f)[0]==0xFF; recs.append(enc(f)); hdr=(cell,vs)
    else:
        s=rng.integers(-1000,1001,6)
        recs.append(enc([int(x)+2048 for x in s])); cell,vs=hdr
        pos=(cell+0.5+s[:3]/2000)*(box/cpd)-box/2; vel=s[3:]*(vs/2000)*velz/cpd
        exp.append(np.concatenate([pos,vel]))
data=np.array(recs,dtype=np.uint8); exp=np.array(exp)
P,V=pack9.unpack_pack9(data,box,velz,float_dtype=np.float64)
print('pack9',len(P)==len(exp),np.abs(P-exp[:,:3]).max(),np.abs(V-exp[:,3:]).max())
P2,_=pack9.unpack_pack9(data,box,velz,float_dtype=np.float64,velout=False); print('pos only same',np.array_equal(P,P2))
