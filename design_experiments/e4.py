import sys, numpy as np
from abacusnbody.analysis import power_spectrum as ps
def brute_kmu(n, L, kedges, muedges):
    fr=np.fft.fftfreq(n)*n
    cnt=np.zeros((len(kedges)-1,len(muedges)-1),dtype=np.int64)
    dk=2*np.pi/L
    for a in fr:
        for b in fr:
            for c in fr:
                k2=a*a+b*b+c*c
                k=np.sqrt(k2)*dk
                mu=abs(c)/np.sqrt(k2) if k2>0 else 0.
                if k<kedges[0] or k>=kedges[-1]: continue
                bk=np.searchsorted(kedges,k,side='right')-1
                bm=min(np.searchsorted(muedges,mu,side='right')-1,len(muedges)-2)
                cnt[bk,bm]+=1
    return cnt
L=2*np.pi
for n in (4,5,6,7):
    kedges=np.array([0.5,1.5,2.5,3.5,6.0]); muedges=np.array([0.,0.5,1.0])
    w=np.ones((n,n,n//2+1),dtype=np.float32)
    r=ps.bin_kmu.py_func(n,L,kedges,muedges,w,nthread=1)
    print('n',n,'code',r[1].sum(axis=1),'brute',brute_kmu(n,L,kedges,muedges).sum(axis=1))
# kppi
def brute_kppi(n,L,kedges,pimax,Npi):
    fr=np.fft.fftfreq(n)*n; dk=2*np.pi/L
    pied=np.linspace(0,pimax,Npi+1)
    cnt=np.zeros((len(kedges)-1,Npi),dtype=np.int64)
    for a in fr:
        for b in fr:
            kp=np.sqrt(a*a+b*b)*dk
            if kp<kedges[0] or kp>=kedges[-1]: continue
            bk=np.searchsorted(kedges,kp,side='right')-1
            for c in fr:
                kz=abs(c)*dk
                if kz>=pied[-1]: continue
                bp=np.searchsorted(pied,kz,side='right')-1
                cnt[bk,bp]+=1
    return cnt
for n in (6,8):
    kedges=np.array([0.,1.5,2.5]); 
    w=np.ones((n,n,n//2+1),dtype=np.float32)
    try:
        r=ps.bin_kppi.py_func(n,L,kedges,2.5,2,w,nthread=1)
        print('kppi n',n,'code',r[1].tolist(),'brute',brute_kppi(n,L,kedges,2.5,2).tolist())
    except Exception as e: print('kppi',n,type(e).__name__,e)
print('--- jit kppi (no boundscheck), pimax large to avoid OOB')
for n in (8,):
    kedges=np.array([0.,1.5,2.5]); 
    w=np.ones((n,n,n//2+1),dtype=np.float32)
    r=ps.bin_kppi.py_func(n,L,kedges,100.,2,w,nthread=1)
    print('kppi n',n,'code',r[1].tolist(),'brute',brute_kppi(n,L,kedges,100.,2).tolist())
