import sys, types, time, shutil, numpy as np, h5py, logging
import fakeblosc; sys.modules['blosc']=fakeblosc
m=types.ModuleType('parallel_numpy_rng'); m.MTGenerator=object; sys.modules['parallel_numpy_rng']=m
c=types.ModuleType('Corrfunc'); ct=types.ModuleType('Corrfunc.theory'); ct.DDrppi=ct.DDsmu=None; c.theory=ct
sys.modules['Corrfunc']=c; sys.modules['Corrfunc.theory']=ct
import asdf
from abacusnbody.hod import abacus_hod
from pathlib import Path
root=Path('hodsim'); shutil.rmtree(root,ignore_errors=True)
sim='Sim'; z=0.5
hi=root/'sims'/sim/'halos'/'z0.500'/'halo_info'; hi.mkdir(parents=True)
sub=root/'subs'/sim/'z0.500'; sub.mkdir(parents=True)
hdr={'H0':70.0,'BoxSize':100.0,'ParticleMassHMsun':1e9,'VelZSpace_to_kms':5000.0}
rng=np.random.default_rng(0)
nslab=2
hdt=np.dtype([('id','i8'),('x_L2com','f4',3),('v_L2com','f4',3),('randoms_gaus_vrms','f4',3),('randoms_exp','f4',3),('sigmav3d_L2com','f4'),('r98_L2com','f4'),('r25_L2com','f4'),('N','u4'),('deltac_rank','f4'),('fenv_rank','f4'),('shear_rank','f4'),('multi_halos','f4'),('randoms','f4')])
pdt=np.dtype([('pos','f4',3),('vel','f4',3),('halo_vel','f4',3),('halo_mass','f4'),('halo_id','i8'),('Np','f4'),('downsample_halo','f4'),('randoms','f4'),('halo_deltac','f4'),('halo_fenv','f4'),('halo_shear','f4')])
truth={}
for e in range(nslab):
    asdf.AsdfFile({'header':hdr,'data':{}}).write_to(hi/f'halo_info_{e:03d}.asdf')
    n=4
    h=np.zeros(n,dtype=hdt)
    ids=np.array([30,10,20,40])+ (100 if e==0 else 0)   # slab 0 has larger ids than slab 1 -> unsorted
    h['id']=ids
    for f in hdt.names:
        if f=='id': continue
        h[f]=rng.random(h[f].shape)+0.5
    h['N']=rng.integers(10,100,n)
    with h5py.File(sub/f'halos_xcom_{e}_seed600_abacushod_oldfenv_new.h5','w') as f: f['halos']=h
    p=np.zeros(6,dtype=pdt)
    for f in pdt.names: p[f]=rng.random(p[f].shape)+0.5
    p['halo_id']=rng.choice(ids,6)
    with h5py.File(sub/f'particles_xcom_{e}_seed600_abacushod_oldfenv_new.h5','w') as f: f['particles']=p
    for r in h: truth[int(r['id'])]=r.copy()
o=abacus_hod.AbacusHOD.__new__(abacus_hod.AbacusHOD)
o.logger=logging.getLogger('x'); o.output_dir=str(root/'out'); o.sim_name=sim; o.sim_dir=str(root/'sims'); o.z_mock=z
o.subsample_dir=str(root/'subs'); o.halo_lc=False; o.n_chunks=1; o.chunk=-1; o.tracers={'LRG':{}}; o.force_mt=False
o.want_ranks=False; o.want_AB=True; o.want_shear=False; o.want_expvel=False; o.z_type='primary'
hd,pd,params,md=o.staging()
print('ids',hd['hid'])
bad=[]
for k,src in [('hpos','x_L2com'),('hvel','v_L2com'),('hmultis','multi_halos'),('hrandoms','randoms'),('hveldev','randoms_gaus_vrms'),('hsigma3d','sigmav3d_L2com'),('hrvir','r98_L2com'),('hdeltac','deltac_rank'),('hfenv','fenv_rank')]:
    ok=all(np.allclose(hd[k][r],truth[int(i)][src]) for r,i in enumerate(hd['hid']))
    print(k,ok)
ok=all(np.allclose(hd['hc'][r],truth[int(i)]['r98_L2com']/truth[int(i)]['r25_L2com']) for r,i in enumerate(hd['hid'])); print('hc',ok)
ok=all(np.allclose(hd['hmass'][r],truth[int(i)]['N']*1e9) for r,i in enumerate(hd['hid'])); print('hmass',ok)
print('pinds ok', np.all(hd['hid'][pd['pinds']]==pd['phid']))
