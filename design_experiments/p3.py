from z3 import *
import time
t0=time.time()
keep=Function('keep',IntSort(),IntSort()); rank=Function('rank',IntSort(),IntSort()); f=Function('f',IntSort(),RealSort())
a,b=Ints('a b'); i,ip,j,g0,h0,h1=Ints('i ip j g0 h0 h1')
rec=ForAll([a],rank(a+1)==rank(a)+If(keep(a)==1,1,0),patterns=[rank(a+1)])
# lemma: monotone, proved by induction on b (step obligation), then assumed
mono=ForAll([a,b],Implies(a<=b,rank(a)<=rank(b)),patterns=[MultiPattern(rank(a),rank(b))])
s=Solver(); d=Int('d')
# induction step: forall a. rank(a)<=rank(a+d)  => rank(a)<=rank(a+d+1)
s.add(rec, d>=0, rank(a)<=rank(a+d), Not(rank(a)<=rank(a+d+1))); print('mono step',s.check(),time.time()-t0)
out=Array('out',IntSort(),RealSort())
def inv(i,j,out):
    return And(h0<=i,i<=h1, j==g0+rank(i)-rank(h0),
               ForAll([ip],Implies(And(h0<=ip,ip<i,keep(ip)==1), out[g0+rank(ip)-rank(h0)]==f(ip))))
# preservation
out2=If(keep(i)==1,Store(out,j,f(i)),out); j2=If(keep(i)==1,j+1,j)
s=Solver(); s.set('timeout',20000)
s.add(rec,mono,inv(i,j,out),i<h1,Not(inv(i+1,j2,out2))); print('preserve',s.check(),time.time()-t0)
# bounds: j < g1 where g1=g0+rank(h1)-rank(h0) when writing
s=Solver(); s.add(rec,mono,inv(i,j,out),i<h1,keep(i)==1,Not(And(j>=g0, j<g0+rank(h1)-rank(h0)))); print('bounds',s.check(),time.time()-t0)
