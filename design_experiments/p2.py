from z3 import *
import time, itertools
t0=time.time()
# TSC per-particle body, REAL mode. px,py,pz in [0,g], ix=nearest int.
gx,gy,gz=Ints('gx gy gz'); px,py,pz,W=Reals('px py pz W')
ix,iy,iz=Ints('ix iy iz')
def nearest(i,p): return And(ToReal(i)-p<=0.5, p-ToReal(i)<=0.5)
def rw(x,L): return If(x>=L,x-L,x)
def wts(i,p):
    d=ToReal(i)-p
    return [0.5*(0.5+d)*(0.5+d), 0.75-d*d, 0.5*(0.5-d)*(0.5-d)]
def numba_idx(i,n): return If(i<0,i+n,i)   # negative wraparound
pre=And(gx>=2,gy>=2,gz>=2, px>=0,px<=ToReal(gx),py>=0,py<=ToReal(gy),pz>=0,pz<=ToReal(gz),
        nearest(ix,px),nearest(iy,py),nearest(iz,pz), W>=0)
wx,wy,wz=wts(ix,px),wts(iy,py),wts(iz,pz)
# 1. weights sum to 1 & nonneg
s=Solver(); s.add(pre, Not(And(Sum(wx)==1, *[w>=0 for w in wx]))); print('sum/nonneg',s.check(),time.time()-t0)
# 2. bounds of indices after rightwrap + numba wrap
X=[numba_idx(rw(ix+d,gx),gx) for d in (-1,0,1)]
s=Solver(); s.add(pre, Not(And(*[And(x>=0,x<gx) for x in X]))); print('bounds gx>=2',s.check(),time.time()-t0)
s=Solver(); s.add(pre.children()[0]==pre.children()[0]); 
pre1=And(gx>=1, px>=0,px<=ToReal(gx),nearest(ix,px))
s=Solver(); s.add(pre1, Not(And(*[And(x>=0,x<gx) for x in X]))); r=s.check(); print('bounds gx>=1',r, s.model() if r==sat else '',time.time()-t0)
# 3. periodic correctness: X[d] == (ix+d) mod gx
s=Solver(); s.add(pre, Not(And(*[x==(ix+d)%gx for x,d in zip(X,(-1,0,1))]))); print('mod',s.check(),time.time()-t0)
# 4. kernel equality: weight at cell ix+d equals TSC spline K(ix+d-px)
def K(sv):
    a=If(sv>=0,sv,-sv)
    return If(a<=0.5, 0.75-a*a, If(a<=1.5, 0.5*(1.5-a)*(1.5-a), 0))
s=Solver(); s.add(pre, Not(And(*[w==K(ToReal(ix+d)-px) for w,d in zip(wx,(-1,0,1))]))); print('kernel',s.check(),time.time()-t0)
# 5. 27 stores: final[c]=pre[c]+sum ite
A=Array('dens',IntSort(),IntSort(),IntSort(),RealSort())
Y=[numba_idx(rw(iy+d,gy),gy) for d in (-1,0,1)]; Z=[numba_idx(rw(iz+d,gz),gz) for d in (-1,0,1)]
wv=[[[Real(f'w_{a}{b}{c}') for c in range(3)] for b in range(3)] for a in range(3)]
cur=A
for a,b,c in itertools.product(range(3),repeat=3):
    cur=Store(cur,X[a],Y[b],Z[c], Select(cur,X[a],Y[b],Z[c])+wv[a][b][c])
cx,cy,cz=Ints('cx cy cz')
spec=Select(A,cx,cy,cz)+Sum([If(And(X[a]==cx,Y[b]==cy,Z[c]==cz),wv[a][b][c],0) for a,b,c in itertools.product(range(3),repeat=3)])
s=Solver(); s.set('timeout',60000); s.add(pre, Not(Select(cur,cx,cy,cz)==spec)); print('27 stores',s.check(),time.time()-t0)
