import sys, numpy as np, time
import fakeblosc; sys.modules['blosc']=fakeblosc
from abacusnbody.data.compaso_halo_catalog import _unpack_euler16, EULER_ABIN, EULER_TBIN
t0=time.time()
codes=np.arange(12*121*45,dtype=np.uint16)
mi,md,mj=_unpack_euler16(codes)
print('time',time.time()-t0, mi.shape)
def unit(v): return np.abs(np.linalg.norm(v,axis=1)-1).max()
print('unit',unit(mi),unit(md),unit(mj))
print('orth',np.abs((mi*mj).sum(1)).max(),np.abs((mi*md).sum(1)).max(),np.abs((md*mj).sum(1)).max())
print('handed',np.abs(np.cross(mi,mj)-md).max())
print('nan',np.isnan(mi).any(),np.isnan(md).any(),np.isnan(mj).any())
tri=np.hstack([mi,md,mj])
u=np.unique(np.round(tri,9),axis=0); print('distinct',len(u),len(codes))
# major axes: distinct per (cap,cell)
maj=mj[::45]; um=np.unique(np.round(maj,9),axis=0); print('distinct majors',len(um),len(maj))
# up to sign duplicates?
s=np.sign(maj[np.arange(len(maj)),np.argmax(np.abs(maj),axis=1)])[:,None]
um2=np.unique(np.round(maj*s,9),axis=0); print('distinct majors up to sign',len(um2))
# coverage: random directions nearest major (up to sign)
rng=np.random.default_rng(0); d=rng.normal(size=(20000,3)); d/=np.linalg.norm(d,axis=1)[:,None]
c=np.abs(d@maj.T).max(axis=1); print('max angle to nearest major (deg)',np.degrees(np.arccos(c.min())))
# per-cap count
print('minor az spacing deg',180/45)
