from z3 import *
import time
t0=time.time()
def rhe(p, name):
    r=Int(name); fl=ToInt(p); d=p-ToReal(fl)
    return r, And(Implies(d<0.5, r==fl), Implies(d>0.5, r==fl+1), Implies(d==0.5, r==If(fl%2==0, fl, fl+1)))
n=Int('n'); w,o,La,Lb,pa,pb=Reals('w o La Lb pa pb')
ia,ca=rhe(pa,'ia'); ib,cb=rhe(pb,'ib')
da,db=Ints('da db')
coll=And(da>=-1,da<=1,db>=-1,db<=1, Or(ia+da==ib+db, ia+da==ib+db+n, ia+da+n==ib+db))
for wmin in (3, RealVal('5/2'), 2):
    hyp=And(n>=1, w>=wmin, o>=0, o<=0.5, La>=0, Lb-La>=2*w, ToReal(n)-Lb+La>=2*w, Lb+w<=ToReal(n),
        pa-o>=La, pa-o<La+w, pb-o>=Lb, Or(pb-o<Lb+w, And(Lb+w==ToReal(n), pb-o<=Lb+w)), ca, cb)
    s=Solver(); s.add(hyp,coll); r=s.check(); print('w>=',wmin,'collision?',r, s.model() if r==sat else '', round(time.time()-t0,2))
