from z3 import *
import time
t0=time.time()
# ghost functions
key=Function('key',IntSort(),IntSort())          # key(i) in [0,P)
thr=Function('thr',IntSort(),IntSort())          # thread of index i
ts=Function('ts',IntSort(),IntSort())            # tstart
cnt=Function('cnt',IntSort(),IntSort(),IntSort(),IntSort())   # cnt(t,k,i) = #{i' in [ts(t),i): key(i')=k}
E=Function('E',IntSort(),IntSort(),IntSort())    # E(k,t): exclusive prefix in (k,t) lexicographic order
N,T,P=Ints('N T P')
a,b,c,d,t,k,i=Ints('a b c d t k i')
C=lambda t,k: cnt(t,k,ts(t+1))
base=[N>=0,T>=1,P>=1, ts(0)==0, ts(T)==N,
  ForAll([t],Implies(And(0<=t,t<T), ts(t)<=ts(t+1))),
  ForAll([i],Implies(And(0<=i,i<N), And(0<=key(i),key(i)<P, 0<=thr(i),thr(i)<T, ts(thr(i))<=i, i<ts(thr(i)+1)))),
  ForAll([t,k],cnt(t,k,ts(t))==0),
  ForAll([t,k,i],cnt(t,k,i+1)==cnt(t,k,i)+If(key(i)==k,1,0),patterns=[cnt(t,k,i+1)]),
  E(0,0)==0,
  ForAll([k,t],Implies(And(0<=t,t<T,0<=k), E(k,t+1)==E(k,t)+C(t,k)),patterns=[E(k,t+1)]),
  ForAll([k],Implies(0<=k, E(k+1,0)==E(k,T)),patterns=[E(k+1,0)]),
]
# lemmas (each to be proved by induction separately; here assumed):
lem=[ ForAll([t,k,a,b],Implies(a<=b, cnt(t,k,a)<=cnt(t,k,b)),patterns=[MultiPattern(cnt(t,k,a),cnt(t,k,b))]),
      # E monotone in lexicographic order
      ForAll([a,b,c,d],Implies(And(0<=a,0<=b,b<=T,0<=c,0<=d,d<=T, Or(a<c,And(a==c,b<=d))), E(a,b)<=E(c,d)),patterns=[MultiPattern(E(a,b),E(c,d))]),
      E(P,0)==N ]
dest=lambda i: E(key(i),thr(i))+cnt(thr(i),key(i),i)
i1,i2=Ints('i1 i2')
s=Solver(); s.set('timeout',60000)
s.add(*base,*lem, 0<=i1,i1<i2,i2<N, dest(i1)==dest(i2))
# hints: instantiate cnt at i+1 terms
s.add(cnt(thr(i1),key(i1),i1+1)==cnt(thr(i1),key(i1),i1+1), cnt(thr(i2),key(i2),i2+1)==cnt(thr(i2),key(i2),i2+1))
s.add(E(key(i1),thr(i1)+1)==E(key(i1),thr(i1)+1), E(key(i2),thr(i2)+1)==E(key(i2),thr(i2)+1))
print('injective:',s.check(),round(time.time()-t0,2))
s=Solver(); s.set('timeout',60000)
s.add(*base,*lem, 0<=i1,i1<N, Not(And(0<=dest(i1),dest(i1)<N)))
s.add(cnt(thr(i1),key(i1),i1+1)==cnt(thr(i1),key(i1),i1+1),E(key(i1),thr(i1)+1)==E(key(i1),thr(i1)+1))
print('in range:',s.check(),round(time.time()-t0,2))
# stripe membership: starts[k]=E(k,0) <= dest < E(k+1,0)
s=Solver(); s.set('timeout',60000)
s.add(*base,*lem, 0<=i1,i1<N, Not(And(E(key(i1),0)<=dest(i1),dest(i1)<E(key(i1)+1,0))))
s.add(cnt(thr(i1),key(i1),i1+1)==cnt(thr(i1),key(i1),i1+1),E(key(i1),thr(i1)+1)==E(key(i1),thr(i1)+1))
print('stripe range:',s.check(),round(time.time()-t0,2))
