import sys, io, numpy as np, struct, warnings; warnings.simplefilter('ignore')
import fakeblosc; sys.modules['blosc']=fakeblosc
import asdf
from abacusnbody.data import pipe_asdf
rng=np.random.default_rng(0)
fns=[]; cols={}
for i in range(3):
    d={'a':rng.integers(0,100,4+i).astype(np.int32),'b':rng.random((3+i,3)).astype(np.float64),'e':np.zeros(0,dtype=np.uint8),'c':rng.integers(0,9,(2,2,2)).astype(np.int16)}
    asdf.AsdfFile({'header':{},'data':d}).write_to(f'p{i}.asdf'); fns.append(f'p{i}.asdf'); cols[i]=d
class Pipe(io.BytesIO):
    def isatty(self): return False
    def close(self): self.closed_=True
for fields in (['a'],['b','a'],['e'],['c','e','b']):
    p=Pipe(); pipe_asdf.unpack_to_pipe(fns,fields,pipe=p,verbose=False)
    exp=b''
    for f in fields:
        n=sum(int(np.prod(cols[i][f].shape)) for i in range(3)); w=cols[0][f].dtype.itemsize
        exp+=struct.pack('<qi',n,w)+b''.join(cols[i][f].tobytes() for i in range(3))
    print(fields, p.getvalue()==exp, len(exp))
# missing field / file
for fns2,fields in ((fns,['zz']),(fns+['nope.asdf'],['a'])):
    p=Pipe()
    try: pipe_asdf.unpack_to_pipe(fns2,fields,pipe=p,verbose=False)
    except Exception as e: print(type(e).__name__, 'bytes written', len(p.getvalue()))
