# E2 feasibility: run the REAL _setup_halo_field_loaders natively with symbolic proxies
import sys, numpy as np, z3, re
import fakeblosc; sys.modules['blosc']=fakeblosc
from abacusnbody.data import compaso_halo_catalog as chc

class SR:
    """symbolic real (or 3-vector of reals) proxy"""
    __array_priority__=1000
    def __init__(s,t): s.t=t   # t: z3 ArithRef or list of 3
    @staticmethod
    def lift(o):
        if isinstance(o,SR): return o
        if isinstance(o,(int,float,np.floating,np.integer)): return SR(z3.RealVal(repr(float(o))))
        raise TypeError(type(o))
    def _bin(s,o,f):
        o=SR.lift(o); a,b=s.t,o.t
        if isinstance(a,list) and isinstance(b,list): return SR([f(x,y) for x,y in zip(a,b)])
        if isinstance(a,list): return SR([f(x,b) for x in a])
        if isinstance(b,list): return SR([f(a,y) for y in b])
        return SR(f(a,b))
    def __mul__(s,o): return s._bin(o,lambda x,y:x*y)
    __rmul__=__mul__
    def __truediv__(s,o): return s._bin(o,lambda x,y:x/y)
    def __add__(s,o): return s._bin(o,lambda x,y:x+y)
    def __sub__(s,o): return s._bin(o,lambda x,y:x-y)
    def __rsub__(s,o): return SR.lift(o)._bin(s,lambda x,y:x-y)
    def __pow__(s,n): 
        assert n==2; return s*s
    def __mod__(s,o): return SR(('mod',s.t,o))
    def reshape(s,*a): return s          # column -> broadcast against 3-vector
    def sqrt(s): 
        r=z3.FreshReal('sqrt'); AX.append(z3.And(r>=0, r*r==s.t)); return SR(r)
    def __bool__(s): raise RuntimeError('symbolic branch')
AX=[]
VEC={'sigmar','sigman','x','v','SO_central_particle','SO_L2max_central_particle'}
class Raw:
    def __init__(s): s.seen={}
    def __getitem__(s,k):
        if k not in s.seen:
            base=re.sub(r'_(L2)?com.*|_i16$|_u16$','',k)
            vec = k.startswith(('sigmar_','sigman_')) and k.endswith('_i16') or re.fullmatch(r'(x|v)_(L2)?com',k) or 'central_particle' in k
            s.seen[k]=SR([z3.Real(f'raw_{k}_{c}') for c in range(3)]) if vec else SR(z3.Real('raw_'+k))
        return s.seen[k]
B,V=z3.Real('BoxSize'),z3.Real('VelZ')
obj=chc.CompaSOHaloCatalog.__new__(chc.CompaSOHaloCatalog)
obj.header={'BoxSize':SR(B),'VelZSpace_to_kms':SR(V)}; obj.convert_units=True
obj._setup_halo_field_loaders()
raw=Raw()
class Halos(dict):
    colnames=[]
halos=Halos()
def load(name):
    hits=[(p,p.fullmatch(name)) for p in obj.halo_field_loaders if p.fullmatch(name)]
    assert len(hits)==1,(name,hits)
    p,m=hits[0]
    return obj.halo_field_loaders[p](m,raw,halos)
for n in ['x_com','r100_L2com','v_com','sigmav3d_com','r50_com','rvcirc_max_L2com','sigmar_com','sigman_com','sigmavMin_com','sigmavMaj_com','sigmavrad_L2com','SO_radius','SO_central_density','N']:
    r=load(n); print(n,'->',r.t if isinstance(r,SR) else r)
halos['sigmavMaj_com']=load('sigmavMaj_com'); halos['sigmavMin_com']=load('sigmavMin_com')
mid=load('sigmavMid_com'); print('Mid',mid.t)
# obligation: Min^2+Mid^2+Maj^2 == (sigmav3d_com column)^2
s3=load('sigmav3d_com')
s=z3.Solver(); s.add(B>0,V>0,*AX)
lhs=halos['sigmavMin_com'].t**2+mid.t**2+halos['sigmavMaj_com'].t**2
# precondition: radicand >= 0
s.add(z3.Not(lhs==s3.t**2)); print('sum-of-squares obligation:',s.check()); 
if s.check()==z3.sat: 
    m=s.model(); print({str(d):m[d] for d in m.decls() if str(d) in ('BoxSize','VelZ')})
