from z3 import *
import time
t0=time.time()
key=Function('key',IntSort(),IntSort()); thr=Function('thr',IntSort(),IntSort()); ts=Function('ts',IntSort(),IntSort())
cnt=Function('cnt',IntSort(),IntSort(),IntSort(),IntSort()); E=Function('E',IntSort(),IntSort(),IntSort())
N,T,P=Ints('N T P'); i1,i2=Ints('i1 i2')
C=lambda t,k: cnt(t,k,ts(t+1))
def wf(i): return And(0<=key(i),key(i)<P, 0<=thr(i),thr(i)<T, ts(thr(i))<=i, i<ts(thr(i)+1))
def rec_cnt(t,k,i): return cnt(t,k,i+1)==cnt(t,k,i)+If(key(i)==k,1,0)
def mono_cnt(t,k,a,b): return Implies(a<=b, cnt(t,k,a)<=cnt(t,k,b))
def rec_E(k,t): return Implies(And(0<=t,t<T,0<=k), E(k,t+1)==E(k,t)+C(t,k))
def lexle(a,b,c,d): return Or(a<c,And(a==c,b<=d))
def mono_E(a,b,c,d): return Implies(And(0<=a,0<=b,b<=T,0<=c,0<=d,d<=T,lexle(a,b,c,d)), E(a,b)<=E(c,d))
dest=lambda i: E(key(i),thr(i))+cnt(thr(i),key(i),i)
def facts(i):
    t,k=thr(i),key(i)
    return [wf(i), rec_cnt(t,k,i), mono_cnt(t,k,i+1,ts(t+1)), rec_E(k,t), cnt(t,k,ts(t))==0, mono_cnt(t,k,ts(t),i)]
glob=[N>=0,T>=1,P>=1,E(0,0)==0,E(P,0)==N]
# injectivity
s=Solver(); t1,k1,t2,k2=thr(i1),key(i1),thr(i2),key(i2)
s.add(*glob,0<=i1,i1<i2,i2<N,*facts(i1),*facts(i2),
      mono_cnt(t1,k1,i1+1,i2), mono_E(k1,t1+1,k2,t2), mono_E(k2,t2+1,k1,t1),
      # thread blocks ordered: i1<i2 => thr(i1)<=thr(i2)   (from ts monotone; separate small lemma)
      t1<=t2,
      dest(i1)==dest(i2))
print('injective:',s.check(),round(time.time()-t0,2))
s=Solver(); s.add(*glob,0<=i1,i1<N,*facts(i1), mono_E(0,0,k1,t1), mono_E(k1,t1+1,P,0), Not(And(0<=dest(i1),dest(i1)<N)))
print('in range:',s.check(),round(time.time()-t0,2))
s=Solver(); s.add(*glob,0<=i1,i1<N,*facts(i1), mono_E(k1,0,k1,t1), mono_E(k1,t1+1,k1,T), Implies(0<=k1,E(k1+1,0)==E(k1,T)), Not(And(E(k1,0)<=dest(i1),dest(i1)<E(k1+1,0))))
print('stripe range:',s.check(),round(time.time()-t0,2))
