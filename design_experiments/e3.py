import numpy as np, numba
from abacusnbody.analysis import tsc, cic
pos=np.array([[0.3,0.3,0.7]],dtype=np.float32)
for shape in [(4,4,1),(4,4)]:
    d=np.zeros(shape,dtype=np.float32)
    try:
        tsc._tsc_scatter(pos,d,1.0); print('tsc jit',shape,'ok sum',d.sum())
    except Exception as e: print('tsc jit',shape,type(e).__name__,str(e)[:150])
    try:
        d[:]=0; tsc._tsc_scatter.py_func(pos,d,1.0); print('tsc py',shape,'ok sum',d.sum())
    except Exception as e: print('tsc py',shape,type(e).__name__,str(e)[:150])
d=np.zeros((4,4,1),dtype=np.float32)
try:
    cic.cic_serial(pos,d,1.0); print('cic jit ok',d.sum())
except Exception as e: print('cic',type(e).__name__,str(e)[:200])
# odd npartition nthread=1
pos=np.random.default_rng(0).random((100,3)).astype(np.float32)
try:
    g=tsc.tsc_parallel(pos,12,1.0,nthread=1,npartition=3); print('odd npart ok',g.sum())
except Exception as e: print('odd npart',type(e).__name__,str(e)[:200])
# pos == box
pos=np.array([[1.0,1.0,1.0]],dtype=np.float32)
d=np.zeros((4,4,4),dtype=np.float32)
try:
    tsc._tsc_scatter(pos,d,1.0); print('pos=box ok',d.sum())
except Exception as e: print('pos=box',type(e).__name__,str(e)[:200])
# offset half cell with pos near box
pos=np.array([[0.99,0.99,0.99]],dtype=np.float32)
for n in (4,5):
    d=np.zeros((n,n,n),dtype=np.float32)
    try:
        tsc._tsc_scatter(pos,d,1.0,offset=0.5/n); print('offset ok',n,d.sum())
    except Exception as e: print('offset',n,type(e).__name__,str(e)[:200])
