import numpy as np, os
from abacusnbody.util import cumsum
for ini,fin in [(False,True),(True,True),(True,False)]:
    arr=np.array([],dtype=np.uint32); nout=0-1+ini+fin
    out=np.full(max(nout,0),7,dtype=np.uint64)
    try:
        r=cumsum.py_func(arr,out,initial=ini,final=fin); print('py',ini,fin,'ret',r,out)
    except Exception as e: print('py',ini,fin,type(e).__name__,e)
    try:
        r=cumsum(arr,out,initial=ini,final=fin); print('jit',ini,fin,'ret',r,out)
    except Exception as e: print('jit',ini,fin,type(e).__name__,e)
