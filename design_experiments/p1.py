# feasibility: hand-written VCs for util.cumsum (fixed variant) with ghost prefix-sum UF
from z3 import *
import time
arr=Function('arr',IntSort(),IntSort()); ps=Function('ps',IntSort(),IntSort())
N,off,i,ini,fin=Ints('N off i ini fin')
k=Int('k')
ax=[ps(0)==0, ForAll([k],Implies(k>=0, ps(k+1)==ps(k)+arr(k)),patterns=[ps(k+1)])]
out=Array('out',IntSort(),IntSort())
def inv(i,total,out):
    j=Int('j')
    return And(0<=i, i<=N-1, total==off+ps(i),
               Implies(ini==1,out[0]==off),
               ForAll([j],Implies(And(0<=j,j<i), out[j+ini]==off+ps(j+1))))
pre=And(N>=1, Or(ini==0,ini==1), Or(fin==0,fin==1))
Nout=N-1+ini+fin
s=Solver(); s.set('timeout',10000)
total=Int('total')
# preservation + bounds
t0=time.time()
body_total=total+arr(i)
out2=Store(out,i+ini,body_total)
vc_pres=Implies(And(pre,*ax,inv(i,total,out),i<N-1), And(0<=i+ini, i+ini<Nout, 0<=i, i<N, inv(i+1,body_total,out2)))
s.add(Not(vc_pres)); print('preservation',s.check(),time.time()-t0)
# exit: total += arr[-1]; if final: out[-1]=total ; post
s=Solver(); s.set('timeout',10000)
tot2=total+arr(N-1)
out3=If(fin==1,Store(out,Nout-1,tot2),out)
j=Int('j')
post=And(tot2==off+ps(N), ForAll([j],Implies(And(0<=j,j<Nout), out3[j]==off+ps(j+1-ini))))
vc_exit=Implies(And(pre,*ax,inv(i,total,out),Not(i<N-1)), And(N-1>=0, Implies(fin==1,Nout-1>=0), post))
s.add(Not(vc_exit)); print('exit',s.check(),time.time()-t0)
# with N>=0 precondition the bounds obligation must fail -> counterexample N=0
s=Solver(); pre0=And(N>=0, Or(ini==0,ini==1), Or(fin==0,fin==1))
s.add(pre0, Not(And(N-1>=0))); print('N=0 cex',s.check(), s.model()[N])
