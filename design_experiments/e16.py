import sys, types, time, numpy as np, warnings; warnings.simplefilter('ignore')
import fakeblosc; sys.modules['blosc']=fakeblosc
from abacusnbody.hod import GRAND_HOD as G
t0=time.time()
rng=np.random.default_rng(3)
def make(H,Pn):
    hd=dict(hpos=rng.random((H,3))*100-50, hvel=rng.normal(size=(H,3))*300, hmass=10**rng.uniform(12,14.5,H), hid=np.arange(H)*3+7,
            hmultis=rng.integers(1,3,H).astype(float), hrandoms=rng.random(H), hveldev=rng.normal(size=(H,3))*100,
            hdeltac=rng.uniform(-.5,.5,H), hfenv=rng.uniform(-.5,.5,H), hshear=rng.uniform(-.5,.5,H),
            hsigma3d=rng.random(H), hc=rng.random(H), hrvir=rng.random(H))
    pinds=np.sort(rng.integers(0,max(H,1),Pn)) if H else np.zeros(0,int)
    pd=dict(ppos=rng.random((Pn,3))*100-50, pvel=rng.normal(size=(Pn,3))*300, phvel=hd['hvel'][pinds], phmass=hd['hmass'][pinds], phid=hd['hid'][pinds],
            pweights=rng.random(Pn)*0.5, prandoms=rng.random(Pn), pdeltac=hd['hdeltac'][pinds], pfenv=hd['hfenv'][pinds], pshear=hd['hshear'][pinds],
            pranks=rng.uniform(-1,1,Pn), pranksv=rng.uniform(-1,1,Pn), pranksp=rng.uniform(-1,1,Pn), pranksr=rng.uniform(-1,1,Pn), pranksc=rng.uniform(-1,1,Pn), pinds=pinds)
    return hd,pd
L=dict(logM_cut=13.0,logM1=14.0,sigma=0.5,alpha=1.0,kappa=0.4,alpha_c=0.3,alpha_s=0.8,s=0.1,s_v=0.1,s_p=0.,s_r=0.,Acent=0.2,Asat=0.1,Bcent=-0.1,Bsat=0.1,ic=0.9)
E=dict(p_max=0.5,Q=100.,logM_cut=12.5,kappa=1.0,sigma=0.6,logM1=13.5,alpha=0.9,gamma=2.0,A_s=1.,alpha_c=0.1,alpha_s=0.9,s=0.,s_v=0.,s_p=0.,s_r=0.,Acent=0.1,Asat=0.,Bcent=0.,Bsat=0.,Ccent=0.1,Csat=0.1,ic=1.0)
Q=dict(logM_cut=12.8,kappa=1.0,sigma=0.5,logM1=14.2,alpha=0.8,alpha_c=0.2,alpha_s=1.0,s=0.,s_v=0.,s_p=0.,s_r=0.,Acent=0.,Asat=0.,Bcent=0.,Bsat=0.,ic=0.7)
params=dict(z=0.5,velz2kms=50.,Lbox=100.,origin=None,Mpart=1e9,chunk=-1)
bad=0
for H,Pn in ((0,0),(1,3),(5,11),(40,90)):
    hd,pd=make(H,Pn)
    for tr in ({'LRG':L},{'LRG':L,'ELG':E},{'ELG':E,'QSO':Q},{'LRG':L,'ELG':E,'QSO':Q}):
        ref=None
        for nt in (1,2,3,7,16):
            out=G.gen_gal_cat(hd,pd,tr,params,Nthread=nt,enable_ranks=True,rsd=True)
            flat={(t,k):np.array(v) for t in out for k,v in out[t].items()}
            if ref is None: ref=flat
            else:
                for key in ref:
                    if not np.array_equal(ref[key],flat[key]): bad+=1; print('DIFF',H,Pn,list(tr),nt,key)
        # ids inherit: every galaxy id in hid; centrals first
        for t in out:
            nc=out[t]['Ncent']; 
            assert np.all(np.isin(out[t]['id'],hd['hid']))
            cen_ids=out[t]['id'][:nc]; assert len(np.unique(cen_ids))==len(cen_ids)
print('bad',bad,round(time.time()-t0,1))
