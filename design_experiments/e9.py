import sys, numpy as np, warnings
warnings.simplefilter('ignore')
import fakeblosc; sys.modules['blosc']=fakeblosc
import asdf
from abacusnbody.data.read_abacus import read_asdf
hdr={'BoxSize':32.0,'VelZSpace_to_kms':3200.0,'ppd':64.0}
rng=np.random.default_rng(0)
rv=rng.integers(-2**31,2**31,(7,3)).astype(np.int32)
asdf.AsdfFile({'header':hdr,'data':{'rvint':rv}}).write_to('rv.asdf')
pid=rng.integers(0,2**63,7).astype(np.uint64)
asdf.AsdfFile({'header':hdr,'data':{'packedpid':pid}}).write_to('pid.asdf')
# pack9: header + particles
p9=rng.integers(0,255,(9,9)).astype(np.uint8); p9[0,0]=255; p9[4,0]=255
asdf.AsdfFile({'header':hdr,'data':{'pack9':p9}}).write_to('p9.asdf')
def t(fn,**kw):
    try:
        tb=read_asdf(fn,verbose=False,**kw); print(fn,kw,'->',tb.colnames,len(tb))
        return tb
    except Exception as e: print(fn,kw,'EXC',type(e).__name__,str(e)[:80])
t('rv.asdf'); t('rv.asdf',load=('pos',)); t('rv.asdf',load=('vel',)); t('rv.asdf',load=())
a=t('rv.asdf',load=('vel','pos')); b=t('rv.asdf',dtype=np.float64)
t('pid.asdf'); t('pid.asdf',load=('pid','lagr_pos','density','tagged','lagr_idx','aux')); t('pid.asdf',load=('aux',)); t('pid.asdf',load=('pos',))
t('p9.asdf'); t('p9.asdf',load=('pos',)); t('p9.asdf',load=('vel',))
t('rv.asdf',load_pos=True); t('rv.asdf',load_vel=False); t('rv.asdf',load_pos=False,load_vel=False)
