import sys, numpy as np, struct, itertools
import fakeblosc; sys.modules['blosc']=fakeblosc
from abacusnbody.data.asdf import BloscCompressor
c=BloscCompressor()
data=np.arange(1000,dtype=np.int64)
frames=list(c.compress(memoryview(data), compression_block_size=1024))
stream=b''.join(frames); print('nframes',len(frames),'stream',len(stream))
def dec(chunks):
    out=np.zeros(data.nbytes,dtype=np.uint8)
    n=c.decompress(iter(chunks), memoryview(out))
    return n, out.view(np.int64)
import random
random.seed(1)
bad=0
for trial in range(300):
    cuts=sorted(random.sample(range(len(stream)+1), random.randint(0,12)))
    if trial%3==0: cuts=sorted(set(cuts+[4,5,6,7]+[random.randint(0,20) for _ in range(3)]))
    pts=[0]+cuts+[len(stream)]
    chunks=[stream[a:b] for a,b in zip(pts,pts[1:])]
    try:
        n,o=dec(chunks)
        if n!=data.nbytes or not np.array_equal(o,data): bad+=1; print('MISMATCH',pts[:8])
    except Exception as e:
        bad+=1; print('EXC',type(e).__name__,e,pts[:10]); 
        if bad>3: break
print('bad',bad)
# one byte chunks
n,o=dec([stream[i:i+1] for i in range(len(stream))]); print('1-byte',n==data.nbytes,np.array_equal(o,data))
