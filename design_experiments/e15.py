import numpy as np, time
from abacusnbody.analysis import tsc
rng=np.random.default_rng(0); t0=time.time()
bad=0; n=0
for N in (0,1,2,5,17,64):
  for npart in (1,2,3,7,16):
    for coord in (0,1,2):
      for dt in (np.float32,np.float64):
        for w in (False,True):
          for sort in (False,True):
            box=7.0
            pos=(rng.integers(0,4*npart+1,(N,3))/(4*npart)*box).astype(dt)   # many on boundaries incl == box
            wt=rng.random(N).astype(dt) if w else None
            p0=pos.copy()
            ref=None
            for nt in (1,2,3,5,16):
                ps,st,ws=tsc.partition_parallel(pos,npart,box,weights=wt,coord=coord,nthread=nt,sort=sort); n+=1
                key=np.minimum((pos[:,coord]*dt(npart/box)).astype(np.int32),npart-1)
                ok=np.array_equal(pos,p0) and st[0]==0 and st[-1]==N and np.all(np.diff(st)>=0)
                for s in range(npart):
                    seg=ps[st[s]:st[s+1]]
                    exp=pos[key==s]; 
                    if sort:
                        ok&= np.all(np.diff(seg[:,coord])>=0)
                        ok&= np.array_equal(np.sort(seg.view([('',dt)]*3).ravel()), np.sort(exp.view([('',dt)]*3).ravel())) if len(exp) else len(seg)==0
                    else:
                        ok&= np.array_equal(seg,exp)   # stable order
                    if w:
                        we=wt[key==s]
                        if not sort: ok&=np.array_equal(ws[st[s]:st[s+1]],we)
                        else:
                            # weight travels with its particle: check multiset of (pos,w)
                            a=np.hstack([seg,ws[st[s]:st[s+1],None]]); b=np.hstack([exp,we[:,None]]) if len(exp) else np.zeros((0,4),dt)
                            ok&=np.array_equal(a[np.lexsort(a.T)],b[np.lexsort(b.T)])
                if not ok: bad+=1; print('BAD',N,npart,coord,dt.__name__,w,sort,nt)
print('runs',n,'bad',bad,round(time.time()-t0,1))
