"""Feasibility spike (design round, throw-away): interpret the REAL AST of abacusnbody.util.cumsum,
generate bounds / invariant / postcondition obligations from a sidecar contract, discharge with z3,
and print counter-models.  INT mode only, 1-D arrays, one loop."""
import ast, sys, time, itertools
import z3

SRC = '/repo/abacusnbody/util.py'

class Arr:
    def __init__(s, name):
        s.name = name; s.term = z3.Array(name, z3.IntSort(), z3.IntSort()); s.len = z3.Int('len_' + name)

class Raised(Exception):
    def __init__(s, exc): s.exc = exc

class Path:
    def __init__(s, env, pc, heap):
        s.env = env; s.pc = pc; s.heap = heap; s.ret = None; s.raised = None
    def fork(s):
        p = Path(dict(s.env), list(s.pc), dict(s.heap)); return p

OBL = []   # (name, pc, goal)
SPEC = [0]
def oblige(name, path, goal):
    if SPEC[0]: return
    OBL.append((name, list(path.pc), goal))

def src_of(node): return ast.unparse(node)

class Interp:
    def __init__(s, fn, contract, ghost):
        s.fn = fn; s.c = contract; s.ghost = ghost; s.done = []
        s.ordinal = {id(n): i for i, n in enumerate(n for n in ast.walk(fn) if isinstance(n, (ast.For, ast.While)))}

    # ---------- expressions ----------
    def ev(s, n, p):
        if isinstance(n, ast.Constant): return z3.IntVal(int(n.value)) if isinstance(n.value, (int, bool)) else n.value
        if isinstance(n, ast.Name):
            if n.id in p.env: return p.env[n.id]
            if n.id in s.ghost: return s.ghost[n.id]
            raise NotImplementedError('name ' + n.id)
        if isinstance(n, ast.BinOp):
            a, b = s.ev(n.left, p), s.ev(n.right, p)
            return {ast.Add: lambda: a + b, ast.Sub: lambda: a - b, ast.Mult: lambda: a * b}[type(n.op)]()
        if isinstance(n, ast.UnaryOp) and isinstance(n.op, ast.USub): return -s.ev(n.operand, p)
        if isinstance(n, ast.UnaryOp) and isinstance(n.op, ast.Not): return z3.Not(s.tobool(s.ev(n.operand, p)))
        if isinstance(n, ast.Compare):
            l = s.ev(n.left, p); out = []
            for op, r in zip(n.ops, n.comparators):
                r = s.ev(r, p)
                out.append({ast.Eq: l == r, ast.NotEq: l != r, ast.Lt: l < r, ast.LtE: l <= r, ast.Gt: l > r, ast.GtE: l >= r}[type(op)]); l = r
            return z3.And(*out) if len(out) > 1 else out[0]
        if isinstance(n, ast.BoolOp):
            vs = [s.tobool(s.ev(v, p)) for v in n.values]
            return z3.And(*vs) if isinstance(n.op, ast.And) else z3.Or(*vs)
        if isinstance(n, ast.Call):
            f = n.func
            if isinstance(f, ast.Name) and f.id == 'len':
                a = s.ev(n.args[0], p); return a.len
            if isinstance(f, ast.Name) and f.id == 'int':
                v = s.ev(n.args[0], p); return z3.If(v, 1, 0) if z3.is_bool(v) else v
            if isinstance(f, ast.Name) and f.id in p.env and p.env[f.id] == 'CAST':   # dtype(offset)
                return s.ev(n.args[0], p)
            if isinstance(f, ast.Name) and f.id in ('forall',):                       # contract language
                var = n.args[0].id; lo = s.ev(n.args[1], p); hi = s.ev(n.args[2], p)
                v = z3.Int(var); q = p.fork(); q.env[var] = v
                body = s.tobool(s.ev(n.args[3], q))
                return z3.ForAll([v], z3.Implies(z3.And(lo <= v, v < hi), body))
            if isinstance(f, ast.Name) and f.id == 'implies':
                return z3.Implies(s.tobool(s.ev(n.args[0], p)), s.tobool(s.ev(n.args[1], p)))
            if isinstance(f, ast.Name) and f.id in s.ghost and callable(s.ghost[f.id]):
                return s.ghost[f.id](*[s.ev(a, p) for a in n.args])
            raise NotImplementedError('call ' + src_of(n))
        if isinstance(n, ast.Attribute):
            if src_of(n).endswith('.dtype.type'): return 'CAST'
            raise NotImplementedError(src_of(n))
        if isinstance(n, ast.Subscript):
            a = s.ev(n.value, p); i = s.index(a, s.ev(n.slice, p), n, p)
            return z3.Select(p.heap[a.name], i)
        raise NotImplementedError(type(n).__name__ + ' ' + src_of(n))

    def tobool(s, v):
        if z3.is_bool(v): return v
        return v != 0

    def index(s, a, i, node, p):
        w = z3.If(i < 0, i + a.len, i)                 # numba wraparound, no bounds check afterwards
        oblige(f'bounds[{src_of(node)}@L{node.lineno}]', p, z3.And(w >= 0, w < a.len))
        if not SPEC[0]: p.pc.append(z3.And(w >= 0, w < a.len))     # assert-then-assume
        return w

    # ---------- statements ----------
    def run(s, stmts, paths):
        for st in stmts:
            nxt = []
            for p in paths:
                if p.ret is not None or p.raised: nxt.append(p); continue
                nxt += s.stmt(st, p)
            paths = nxt
        return paths

    def stmt(s, st, p):
        if isinstance(st, ast.Expr) and isinstance(st.value, ast.Constant): return [p]      # docstring
        if isinstance(st, ast.Assign):
            v = s.ev(st.value, p); t = st.targets[0]
            if isinstance(t, ast.Name): p.env[t.id] = v
            else:
                a = s.ev(t.value, p); i = s.index(a, s.ev(t.slice, p), t, p)
                p.heap[a.name] = z3.Store(p.heap[a.name], i, v)
            return [p]
        if isinstance(st, ast.AugAssign):
            v = s.ev(ast.BinOp(st.target, st.op, st.value), p) if False else None
            cur = s.ev(st.target, p); rhs = s.ev(st.value, p)
            p.env[st.target.id] = cur + rhs; return [p]
        if isinstance(st, ast.If):
            c = s.tobool(s.ev(st.test, p)); a = p.fork(); b = p.fork()
            a.pc.append(c); b.pc.append(z3.Not(c))
            return s.run(st.body, [a]) + s.run(st.orelse, [b])
        if isinstance(st, ast.Raise):
            p.raised = src_of(st.exc.func if isinstance(st.exc, ast.Call) else st.exc); return [p]
        if isinstance(st, ast.Return):
            p.ret = s.ev(st.value, p); return [p]
        if isinstance(st, ast.For):
            return s.loop(st, p)
        raise NotImplementedError(type(st).__name__)

    def loop(s, st, p):
        k0 = s.ordinal[id(st)]; spec = s.c['loops'][k0]
        assert isinstance(st.iter, ast.Call) and st.iter.func.id == 'range' and len(st.iter.args) == 1
        hi = s.ev(st.iter.args[0], p); var = st.target.id
        def inv(q):
            SPEC[0] += 1
            try: return z3.And(*[s.tobool(s.ev(ast.parse(e, mode='eval').body, q)) for e in spec['invariant']])
            finally: SPEC[0] -= 1
        # entry
        p.env[var] = z3.IntVal(0); oblige(f'loop{k0}.init', p, inv(p))
        # havoc modified
        mod_names = {t.id for n in ast.walk(st) for t in ([n.target] if isinstance(n, ast.AugAssign) else n.targets if isinstance(n, ast.Assign) else []) if isinstance(t, ast.Name)}
        mod_arrs = {n.targets[0].value.id for n in ast.walk(st) if isinstance(n, ast.Assign) and isinstance(n.targets[0], ast.Subscript)}
        h = p.fork(); k = k0 + 1
        for nm in mod_names: h.env[nm] = z3.Int(f'{nm}!{k}')
        for nm in mod_arrs: h.heap[nm] = z3.Array(f'{nm}!{k}', z3.IntSort(), z3.IntSort())
        h.env[var] = z3.Int(f'{var}!{k}')
        h.pc.append(inv(h)); h.pc.append(z3.And(h.env[var] >= 0))
        body = h.fork(); body.pc.append(body.env[var] < hi)
        for q in s.run(st.body, [body]):
            q.env[var] = q.env[var] + 1; oblige(f'loop{k-1}.preserve', q, inv(q))
        ex = h.fork(); ex.pc.append(z3.Not(ex.env[var] < hi))
        # range semantics: on exit i == max(hi,0)
        ex.pc.append(ex.env[var] == z3.If(hi > 0, hi, 0))
        return [ex]


def main():
    t0 = time.time()
    tree = ast.parse(open(SRC).read()); fn = [n for n in tree.body if isinstance(n, ast.FunctionDef) and n.name == 'cumsum'][0]
    psum = z3.Function('psum', z3.IntSort(), z3.IntSort())       # ghost prefix sum of arr
    arr, out = Arr('arr'), Arr('out')
    initial, final = z3.Bool('initial'), z3.Bool('final'); offset = z3.Int('offset')
    S = lambda k: offset + psum(k)
    ghost = {'S': S}
    k = z3.Int('k')
    AX = [psum(0) == 0, z3.ForAll([k], z3.Implies(k >= 0, psum(k + 1) == psum(k) + z3.Select(arr.term, k)), patterns=[psum(k + 1)]), arr.len >= 0, out.len >= 0,
          z3.Implies(arr.len - 1 >= 0, psum(arr.len - 1 + 1) == psum(arr.len - 1) + z3.Select(arr.term, arr.len - 1))]   # unfold psum(len(arr))
    contract = dict(
        loops={0: dict(invariant=['total == S(i)', 'implies(initial, out[0] == S(0))',
                                  'forall(j, 0, i, out[j + int(initial)] == S(j + 1))', 'i <= N - 1 or i == 0'])},
        ensures=['result == S(len(arr))', 'forall(j, 0, len(out), out[j] == S(j + 1 - int(initial)))'])
    p0 = Path({'arr': arr, 'out': out, 'initial': initial, 'final': final, 'offset': offset}, list(AX), {'arr': arr.term, 'out': out.term})
    it = Interp(fn, contract, ghost)
    finals = it.run(fn.body, [p0])
    for p in finals:
        if p.raised:
            oblige('rejects.only_when_wrong_length', p, out.len != arr.len - 1 + z3.If(initial, 1, 0) + z3.If(final, 1, 0)); continue
        q = p.fork(); q.env['result'] = p.ret
        for e in contract['ensures']:
            SPEC[0] += 1; g = it.tobool(it.ev(ast.parse(e, mode='eval').body, q)); SPEC[0] -= 1
            oblige('post[' + e + ']', q, g)
    print(f'{len(OBL)} obligations from {len(finals)} paths, generated in {time.time()-t0:.2f}s')
    ok = 0
    def has_q(f):
        if z3.is_quantifier(f): return True
        return any(has_q(c) for c in f.children())
    for name, pc, goal in OBL:
        qf = [f for f in pc if not has_q(f)]
        s = z3.Solver(); s.set('timeout', 5000); s.add(*qf); s.add(z3.Not(goal)); r = s.check() if not has_q(goal) else z3.unknown
        cand = s.model() if r == z3.sat else None
        if r != z3.unsat:
            s2 = z3.Solver(); s2.set('timeout', 10000); s2.add(*pc); s2.add(z3.Not(goal)); r = s2.check()
            if r == z3.sat: cand = s2.model()
        if r == z3.unsat: ok += 1; continue
        m = cand
        vals = {str(d): m[d] for d in m.decls() if str(d) in ('len_arr', 'len_out', 'initial', 'final', 'offset')} if m else r
        print('  NOT DISCHARGED', name, r, 'candidate model:', vals)
    print(f'discharged {ok}/{len(OBL)} in {time.time()-t0:.2f}s')

main()
