from z3 import *
import time
t0=time.time()
# RVint: code (numba typing): int32 w, uint32(12) -> both to int64; >> arithmetic
w=BitVec('w',32)
code_pos = SignExt(32,w) >> ZeroExt(32,BitVecVal(12,32))           # int64 arithmetic shift
spec_pos = SignExt(44, Extract(31,12,w))                            # signed upper 20 bits
s=Solver(); s.add(code_pos!=spec_pos); print('rvint pos',s.check())
code_vel = (SignExt(32,w) & ZeroExt(32,BitVecVal(0xFFF,32))) - 2048
spec_vel = ZeroExt(52,Extract(11,0,w)) - 2048
s=Solver(); s.add(code_vel!=spec_vel); print('rvint vel',s.check())
# mutation: logical shift instead -> must be refuted
s=Solver(); s.add(LShR(SignExt(32,w),12)!=spec_pos); print('mutant lshr (expect sat)',s.check(), s.model())
# pack9 expand
c=[BitVec(f'c{i}',8) for i in range(9)]
z=lambda b: ZeroExt(56,b)
sh=[ (z(c[1])&0x0F)|(z(c[0])<<4), ((z(c[1])&0xF0)<<4)|z(c[2]), (z(c[4])&0x0F)|(z(c[3])<<4), ((z(c[4])&0xF0)<<4)|z(c[5]), (z(c[7])&0x0F)|(z(c[6])<<4), ((z(c[7])&0xF0)<<4)|z(c[8]) ]
stored=[Extract(15,0,x) for x in sh]            # store to int16
final=[Extract(15,0, SignExt(48,x)-2048) for x in stored]   # s[i] -= 2048 : int16 - int64 -> int64 -> store int16
# spec: 72-bit record as nibbles
def field(hi8,lo4=None,hi4=None,lo8=None):
    pass
spec=[Concat(c[0],Extract(3,0,c[1])), Concat(Extract(7,4,c[1]),c[2]), Concat(c[3],Extract(3,0,c[4])), Concat(Extract(7,4,c[4]),c[5]), Concat(c[6],Extract(3,0,c[7])), Concat(Extract(7,4,c[7]),c[8])]
s=Solver(); s.add(Or(*[SignExt(48,f)!=ZeroExt(52,sp)-2048 for f,sp in zip(final,spec)])); print('pack9 fields',s.check(),time.time()-t0)
# pid density non-interference
p,q=BitVecs('p q',64)
dens=lambda x: LShR(x & BitVecVal(0x07FE000000000000,64), 49)
s=Solver(); s.add(Extract(58,49,p)==Extract(58,49,q), dens(p)*dens(p)!=dens(q)*dens(q)); print('density NI',s.check(),time.time()-t0)
