import sys, numpy as np, os, shutil
import fakeblosc; sys.modules['blosc']=fakeblosc
import asdf
from abacusnbody.data import asdf as aasdf
from abacusnbody.data import compaso_halo_catalog as chc
from pathlib import Path

RAW = None
def raw_schema():
    global RAW
    if RAW is None:
        with asdf.open('/repo/tests/Mini_N64_L32/halos/z0.000/halo_info/halo_info_000.asdf', lazy_load=True) as af:
            RAW = {k:(af['data'][k].shape[1:], af['data'][k].dtype) for k in af['data']}
            hdr = dict(af['header'])
        RAW['_hdr']=hdr
    return RAW

def make_cat(root, nslab=2, nh=(5,4), seed=0, box=32.0, velz=3200.0):
    rng=np.random.default_rng(seed)
    sch=raw_schema(); hdr=dict(sch['_hdr']); hdr['BoxSize']=box; hdr['VelZSpace_to_kms']=velz
    gd=Path(root)/'Sim'/'halos'/'z0.000'
    for sub in ['halo_info','halo_rv_A','halo_rv_B','halo_pid_A','halo_pid_B']:
        (gd/sub).mkdir(parents=True, exist_ok=True)
    for s in range(nslab):
        n=nh[s]
        data={}
        for k,v in sch.items():
            if k=='_hdr': continue
            shp,dt=v
            if dt.kind=='f': data[k]=rng.random((n,)+shp).astype(dt)+0.1
            elif k.endswith('_u16'): data[k]=rng.integers(0,65340,(n,)+shp).astype(dt)
            elif k.endswith('_i16'): data[k]=rng.integers(0,32000,(n,)+shp).astype(dt)
            else: data[k]=rng.integers(0,1000,(n,)+shp).astype(dt)
        data['id']=(np.arange(n)+1000*s).astype(np.uint64)
        for AB in 'AB':
            npout=rng.integers(0,4,n).astype(np.uint32)
            gaps=rng.integers(0,3,n)
            st=np.cumsum(np.concatenate([[gaps[0]],npout[:-1]+gaps[1:]])).astype(np.uint64) if n else np.zeros(0,np.uint64)
            data['npout'+AB]=npout; data['npstart'+AB]=st
            tot=int(st[-1]+npout[-1]+2) if n else 1
            rv=rng.integers(-2**31,2**31,(tot,3)).astype(np.int32)
            pid=rng.integers(0,2**63,tot).astype(np.uint64)
            asdf.AsdfFile({'header':hdr,'data':{'rvint':rv}}).write_to(gd/f'halo_rv_{AB}'/f'halo_rv_{AB}_{s:03d}.asdf')
            asdf.AsdfFile({'header':hdr,'data':{'packedpid':pid}}).write_to(gd/f'halo_pid_{AB}'/f'halo_pid_{AB}_{s:03d}.asdf')
        asdf.AsdfFile({'header':hdr,'data':data}).write_to(gd/'halo_info'/f'halo_info_{s:03d}.asdf')
    return gd
if __name__=='__main__':
    shutil.rmtree('cat',ignore_errors=True)
    gd=make_cat('cat')
    c=chc.CompaSOHaloCatalog(gd,cleaned=False,subsamples=dict(A=True,B=True,rv=True,pid=True),fields='all')
    print(len(c.halos), len(c.subsamples), c.halos['npstartA'][:], c.halos['npoutA'][:])
    def try_(**kw):
        try:
            c=chc.CompaSOHaloCatalog(gd,cleaned=False,**kw); return c
        except Exception as e:
            print('FAIL',kw,type(e).__name__,str(e)[:100]); return None
    a=try_(fields=['sigmavMid_com']); b=try_(fields=['sigmavMid_com','N']); call=try_(fields='all')
    if a and b: print('sigmavMid alone', a.halos['sigmavMid_com'][:3], 'with N', b.halos['sigmavMid_com'][:3], 'all', call.halos['sigmavMid_com'][:3])
    try_(fields=['N'],subsamples=dict(A=True,pos=True))
    e=try_(fields='all',filter_func=lambda h: h['N']>10**9, subsamples=dict(A=True,rv=True))
    if e: print('empty filter', len(e.halos), len(e.subsamples))
    s2=call.halos['sigmavMin_com']**2+call.halos['sigmavMid_com']**2+call.halos['sigmavMaj_com']**2
    print('sum sq / sigmav3d^2', (s2/call.halos['sigmav3d_com']**2)[:3])
