import numpy as np, numba
from abacusnbody.analysis import tsc
# default npartition logic replicate by calling with verbose
import io, contextlib
def default_np(n1d, nthread):
    pos=np.zeros((1,3),dtype=np.float32)
    buf=io.StringIO()
    with contextlib.redirect_stdout(buf):
        try:
            tsc.tsc_parallel(pos, n1d, 1.0, nthread=nthread, verbose=True)
        except Exception as e:
            return 'ERR '+str(e)
    for l in buf.getvalue().splitlines():
        if l.startswith('npartition='): return int(l.split('=')[1])
bad=[]
for n1d in range(1,80):
    for nt in (2,3,4,8,16):
        npart=default_np(n1d,nt)
        if isinstance(npart,int) and npart>1 and 3*npart>n1d:
            bad.append((n1d,nt,npart))
print('unsafe defaults (n1d,nthread,npartition):',bad[:30],len(bad))
# rows touched by stripes for n1d=8, npartition=4
n1d=8; box=1.0
rng=np.random.default_rng(1)
pos=rng.random((2000,3)).astype(np.float32)
pp,starts,_=tsc.partition_parallel(pos,4,box,nthread=2)
rows=[]
for s in range(4):
    d=np.zeros((n1d,n1d,n1d),dtype=np.float32)
    tsc._tsc_scatter.py_func(pp[starts[s]:starts[s+1]],d,box)
    rows.append(set(np.nonzero(d.sum(axis=(1,2)))[0].tolist()))
print('rows per stripe',rows)
print('stripe0 & stripe2 overlap:',rows[0]&rows[2],' stripe1&3:',rows[1]&rows[3])
