import numpy as np, warnings; warnings.simplefilter('ignore')
from abacusnbody.analysis import tsc, cic
rng=np.random.default_rng(1)
def K_tsc(s):
    a=np.abs(s); return np.where(a<=0.5,0.75-a*a,np.where(a<=1.5,0.5*(1.5-a)**2,0.))
def K_cic(s):
    a=np.abs(s); return np.where(a<=1,1-a,0.)
def ref(pos,w,shape,box,K,off=0.0):
    g=np.zeros(shape)
    for (x,y,z),W in zip(pos,w):
        ws=[]
        for ax,c in enumerate((x,y,z)):
            n=shape[ax]; p=(c+off)*n/box
            m=np.arange(-3*n,4*n)
            k=K(m-p); v=np.zeros(n); np.add.at(v,m%n,k); ws.append(v)
        g+=W*ws[0][:,None,None]*ws[1][None,:,None]*ws[2][None,None,:]
    return g
box=10.0
for shape in ((4,4,4),(5,3,6),(8,2,3)):
    N=50
    pos=rng.random((N,3))*box
    # put some on centres / edges / boundary
    pos[:5]=np.floor(pos[:5]/box*np.array(shape))*box/np.array(shape)
    pos[5:10]=(np.floor(pos[5:10]/box*np.array(shape))+0.5)*box/np.array(shape)
    pos[10]=box
    w=rng.random(N)
    for off in (0.0,0.5*box/shape[0]):
        d=np.zeros(shape,dtype=np.float64); tsc._tsc_scatter(pos,d,box,weights=w,offset=off)
        r=ref(pos,w,shape,box,K_tsc,off)
        print('TSC',shape,'off',round(off,3),'max|diff|',np.abs(d-r).max(),'sum',d.sum()-w.sum())
    d=np.zeros(shape,dtype=np.float64); cic.cic_serial(pos,d,box,weights=w)
    r=ref(pos,w,shape,box,K_cic)
    print('CIC',shape,'max|diff|',np.abs(d-r).max(),'sum',d.sum()-w.sum())
