from z3 import *
import time
t0=time.time()
e=Function('e',IntSort(),RealSort()); m=Function('m',IntSort(),RealSort())
Nk,Nmu,k,bk,bmu,c,n=Ints('Nk Nmu k bk bmu c n')
a,b=Ints('a b')
# preconditions: strictly increasing edges (as explicit instances where needed -> use quantified, small)
inc_e=ForAll([a],Implies(And(0<=a,a<Nk), e(a)<e(a+1)))
inc_m=ForAll([a],Implies(And(0<=a,a<Nmu), m(a)<m(a+1)))
pre=And(Nk>=1,Nmu>=1,c>=0,m(0)==0,m(Nmu)>=1,inc_e,inc_m)
x=lambda kk: ToReal(c+kk*kk)
def mu2(kk):  # defined via fresh real with constraint
    return None
# encode mu2(k) as real var with defining constraint
muk,mukm1=Reals('muk mukm1')
defs=And(If(c+k*k>0, muk*x(k)==ToReal(k*k), muk==0), If(c+(k-1)*(k-1)>0, mukm1*x(k-1)==ToReal((k-1)*(k-1)), mukm1==0))
def Inv(kk,bk,bmu,mu_prev):
    return And(0<=bk,bk<Nk,0<=bmu,bmu<Nmu, Or(bk==0, And(kk>=1, e(bk)<x(kk-1))), Or(bmu==0, And(kk>=1, m(bmu)<mu_prev)))
hyp=And(pre,defs,0<=k,Inv(k,bk,bmu,mukm1))
# lemma: mu monotone & <=1
s=Solver(); s.add(c>=0,k>=1,defs,Not(And(mukm1<=muk, muk<=1, muk>=0))); print('mu lemma',s.check(),round(time.time()-t0,2))
mul=And(Implies(k>=1,mukm1<=muk),muk<=1,muk>=0)
# (1) continue path: x<e0 -> Inv(k+1) with same bk,bmu
s=Solver(); s.set('timeout',20000); s.add(hyp,mul,x(k)<e(0),Not(Inv(k+1,bk,bmu,muk))); print('continue preserves',s.check(),round(time.time()-t0,2))
# (2) break path: x>=e[Nk] -> all later k' out of range
kp=Int('kp'); s=Solver(); s.add(hyp,x(k)>=e(Nk),kp>=k,Not(x(kp)>=e(Nk))); print('break no-drop',s.check(),round(time.time()-t0,2))
# (3) k-search loop: inner invariant  J(b): bk<=b<Nk and (b==bk or e(b)<x) ; guard x>e(b+1)
bb=Int('bb')
J=lambda b_: And(bk<=b_, b_<Nk, Or(b_==bk, e(b_)<x(k)))
inrange=And(x(k)>=e(0), x(k)<e(Nk))
s=Solver(); s.set('timeout',20000); s.add(hyp,inrange,J(bb),x(k)>e(bb+1),Not(And(bb+1<=Nk, J(bb+1)))); print('search preserve+bounds',s.check(),round(time.time()-t0,2))
# exit: placement
s=Solver(); s.set('timeout',20000); s.add(hyp,mul,inrange,J(bb),Not(x(k)>e(bb+1)),Not(And(e(bb)<=x(k),x(k)<=e(bb+1), Or(bb==0,e(bb)<x(k))))); print('placement k',s.check(),round(time.time()-t0,2))
# mu search: Jm(b): bmu<=b<Nmu and (b==bmu or m(b)<muk); guard muk>m(b+1)
Jm=lambda b_: And(bmu<=b_, b_<Nmu, Or(b_==bmu, m(b_)<muk))
s=Solver(); s.set('timeout',20000); s.add(hyp,mul,Jm(bb),muk>m(bb+1),Not(And(bb+1<=Nmu,Jm(bb+1)))); print('mu search preserve+bounds',s.check(),round(time.time()-t0,2))
s=Solver(); s.set('timeout',20000); s.add(hyp,mul,Jm(bb),Not(muk>m(bb+1)),Not(And(m(bb)<=muk,muk<=m(bb+1)))); print('placement mu',s.check(),round(time.time()-t0,2))
# without precondition m(Nmu)>=1 the bounds obligation must fail
pre2=And(Nk>=1,Nmu>=1,c>=0,m(0)==0,inc_e,inc_m)
s=Solver(); s.set('timeout',20000); s.add(pre2,defs,0<=k,Inv(k,bk,bmu,mukm1),mul,Jm(bb),muk>m(bb+1),Not(bb+1<=Nmu-1+1), ) ; print('(sanity) needs m[Nmu]>=1:',s.check())
