import Mathlib

-- L2: an injective self-map of Fin N is a bijection (scatter destinations form a permutation)
theorem L2 (N : ℕ) (f : Fin N → Fin N) (h : Function.Injective f) : Function.Bijective f :=
  Finite.injective_iff_bijective.mp h

-- L1: updating one entry changes the total by the difference
theorem L1 (T : ℕ) (A : Fin T → ℤ) (t : Fin T) (v : ℤ) :
    (∑ s, Function.update A t v s) = (∑ s, A s) - A t + v := by
  classical
  rw [Finset.sum_update_of_mem (Finset.mem_univ t)]
  have := Finset.add_sum_erase Finset.univ A (Finset.mem_univ t)
  simp only [Finset.sdiff_singleton_eq_erase] at *
  linarith
