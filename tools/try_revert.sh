#!/bin/bash
# usage: try_revert.sh <repo commit> <prop> : run a check against a scratch copy of /repo with that commit reverted
set -e
D=$(mktemp -d /tmp/mutXXXXXX)
trap 'rm -rf "$D"' EXIT
cp -r /repo/abacusnbody "$D/"; cp -r /repo/abacusutils.egg-info "$D/" 2>/dev/null || true
git -C /repo show "$1" -- abacusnbody | patch -s -R -p1 -d "$D"
VV_REPO="$D" /verif/vv check "$2" --tier "${3:-quick}" 2>&1 | grep -E "VIOLATION|UNDECIDED|RESULT|KNOWN|Traceback|Error" | cut -c1-230 | sed "s#$D#<scratch>#g" | head -${LINES_MAX:-6}
