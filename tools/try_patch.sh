#!/bin/bash
# usage: try_patch.sh <patch.diff> <prop> [tier]   -- runs a check against a scratch copy of /repo with the patch applied
set -e
D=$(mktemp -d /tmp/mutXXXXXX)
trap 'rm -rf "$D"' EXIT
cp -r /repo/abacusnbody "$D/"; cp -r /repo/abacusutils.egg-info "$D/" 2>/dev/null || true
patch -s -p1 -d "$D" < "$1"
shift
P=$1; T=${2:-quick}
VV_REPO="$D" /verif/vv check "$P" --tier "$T" > "$D/out.txt" 2>&1 || true
grep -E "VIOLATION|KNOWN|Traceback|Error" "$D/out.txt" | cut -c1-260 | sed "s#$D#<scratch>#g" | head -${LINES_MAX:-14}
grep -E "UNDECIDED" "$D/out.txt" | cut -c1-260 | sed "s#$D#<scratch>#g" | head -3
grep -E "^RESULT" "$D/out.txt"
