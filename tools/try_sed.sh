#!/bin/bash
# usage: try_sed.sh <file relative to repo> <sed expr> <prop> [tier]
set -e
D=$(mktemp -d /tmp/mutXXXXXX)
trap 'rm -rf "$D"' EXIT
cp -r /repo/abacusnbody "$D/"; cp -r /repo/abacusutils.egg-info "$D/" 2>/dev/null || true
sed -i "$2" "$D/$1"
if diff -q "$D/$1" "/repo/$1" >/dev/null; then echo "sed changed nothing"; exit 9; fi
VV_REPO="$D" /verif/vv check "$3" --tier "${4:-quick}" 2>&1 | grep -E "VIOLATION|UNDECIDED|RESULT|KNOWN|Traceback|Error" | cut -c1-260 | sed "s#$D#<scratch>#g" | head -${LINES_MAX:-8}
