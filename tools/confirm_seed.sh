#!/bin/bash
# usage: confirm_seed.sh <prop> <variant> <seeddir>  -> /verif/seeded/<prop>_<variant>/
# Confirms independently: patch applies to the current /repo HEAD, the 30 baseline tests still pass with it,
# the demo passes without the patch and fails with it.  Scratch worktree is removed afterwards.
P=$1; V=$2; S=$3
PY=/verif/.venv312/bin/python
WT=$(mktemp -d /tmp/csXXXXXX); rmdir "$WT"
git -C /repo worktree add -q --detach "$WT" HEAD || exit 9
trap 'git -C /repo worktree remove --force "$WT" 2>/dev/null; rm -rf "$WT"' EXIT
cp /repo/abacusnbody/version.py "$WT/abacusnbody/version.py"
OUT=/verif/seeded/${P}_${V}; mkdir -p "$OUT"
export PYTHONPATH="$WT" NUMBA_CACHE_DIR="$WT/.nbcache"
( cd "$WT" && REPO="$WT" timeout 1200 $PY "$S/demo_$V.py" ) > "$OUT/demo_clean.log" 2>&1; RC_CLEAN=$?
git -C "$WT" apply "$S/patch_$V.diff" || { echo "$P $V: patch does not apply"; rm -rf "$OUT"; exit 8; }
( cd "$WT" && REPO="$WT" timeout 1200 $PY "$S/demo_$V.py" ) > "$OUT/demo_patched.log" 2>&1; RC_PATCH=$?
( cd "$WT" && timeout 1800 /venv/bin/python -m pytest -q -p no:cacheprovider --timeout=900 tests/test_tsc.py tests/test_util.py 2>&1 | tail -3 ) > "$OUT/tests_patched.log" 2>&1
NPASS=$(grep -oE '[0-9]+ passed' "$OUT/tests_patched.log" | grep -oE '[0-9]+')
cp "$S/patch_$V.diff" "$OUT/patch.diff"; cp "$S/demo_$V.py" "$OUT/demo.py"; cp "$S/notes.md" "$OUT/notes.md" 2>/dev/null
tail -c 600 "$OUT/demo_patched.log" > "$OUT/demo_patched.tail"; mv "$OUT/demo_patched.tail" "$OUT/demo_patched.log"
tail -c 300 "$OUT/demo_clean.log" > "$OUT/demo_clean.tail"; mv "$OUT/demo_clean.tail" "$OUT/demo_clean.log"
echo "$P $V: demo clean rc=$RC_CLEAN patched rc=$RC_PATCH tests passed=$NPASS"
cat > "$OUT/confirm.json" <<EOJ
{"property": "$P", "variant": "$V", "base_commit": "$(git -C /repo rev-parse --short HEAD)", "demo_rc_clean": $RC_CLEAN, "demo_rc_patched": $RC_PATCH, "tests_passed_with_patch": ${NPASS:-0},
 "ran": ["REPO=<worktree> python demo.py (clean)", "git apply patch.diff", "REPO=<worktree> python demo.py (patched)", "pytest tests/test_tsc.py tests/test_util.py (patched)"]}
EOJ
