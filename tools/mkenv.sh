#!/bin/bash
# Build an offline overlay venv: python3.12 (same interpreter as /venv) + /venv's site-packages via .pth
# + z3-solver, cvc5, scipy, sympy, mpmath from the offline wheelhouse.  Usage: mkenv.sh <dir>
set -e
D="$1"
if [ -x "$D/bin/python" ] && "$D/bin/python" -c "import z3, scipy, numba, sympy" 2>/dev/null; then exit 0; fi
rm -rf "$D"
/venv/bin/python -m venv "$D" --without-pip
SP="$D/lib/python3.12/site-packages"
echo "import site; site.addsitedir('/venv/lib/python3.12/site-packages')" > "$SP/zz_venv.pth"
PIP_NO_INDEX=1 /venv/bin/python -m pip install --quiet --no-index --find-links /opt/veriftools/wheels --target "$SP" --no-deps z3-solver cvc5 scipy sympy mpmath 2>&1 | grep -v '^WARNING' || true
"$D/bin/python" -c "import z3, scipy, numba, sympy, cvc5; print('env ok', z3.get_version_string(), scipy.__version__)"
