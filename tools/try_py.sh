#!/bin/bash
# usage: try_py.sh <file relative to repo> <prop> <<< "python code transforming variable s (file text)"
set -e
D=$(mktemp -d /tmp/mutXXXXXX)
trap 'rm -rf "$D"' EXIT
cp -r /repo/abacusnbody "$D/"; cp -r /repo/abacusutils.egg-info "$D/" 2>/dev/null || true
CODE=$(cat)
python3 - "$D/$1" <<PYEOF
import sys
p=sys.argv[1]; s=open(p).read(); s0=s
$CODE
assert s!=s0, 'edit changed nothing'
open(p,'w').write(s)
PYEOF
VV_REPO="$D" /verif/vv check "$2" --tier "${3:-quick}" 2>&1 | grep -E "VIOLATION|UNDECIDED|RESULT|KNOWN|Traceback|Error" | cut -c1-230 | sed "s#$D#<scratch>#g" | head -${LINES_MAX:-6}
