#!/usr/bin/env python3
"""writes seeded/<id>/meta.json and seeded/README.md from what the confirmation and detection runs recorded:
confirm.json (tools/confirm_seed.sh), notes.md (the sub-agent's description), detection.txt (tools/run_seeds.sh)."""
import glob
import json
import os
import re

HERE = os.path.join(os.path.dirname(os.path.abspath(__file__)), '..', 'seeded')
rows = []
for d in sorted(glob.glob(os.path.join(HERE, 'C??_?'))):
    sid = os.path.basename(d)
    prop, var = sid.split('_')
    if not os.path.exists(os.path.join(d, 'patch.diff')):
        continue
    conf = json.load(open(os.path.join(d, 'confirm.json'))) if os.path.exists(os.path.join(d, 'confirm.json')) else {}
    notes = open(os.path.join(d, 'notes.md')).read() if os.path.exists(os.path.join(d, 'notes.md')) else ''
    title, body = '', ''
    secs = re.split(r'^## ', notes, flags=re.M)
    for s in secs[1:]:
        head = s.splitlines()[0]
        if re.match(rf'(Patch|Change|Variant|Seed)?\s*_?{var}\b', head):
            title = re.sub(rf'^(Patch|Change|Variant|Seed)?\s*_?{var}\s*(\([^)]*\))?\s*[-—–:]*\s*', '', head).strip()
            body = '\n'.join(s.splitlines()[1:]).strip()
            break
    files = sorted(set(re.findall(r'^\+\+\+ b/(\S+)', open(os.path.join(d, 'patch.diff')).read(), flags=re.M)))
    det = open(os.path.join(d, 'detection.txt')).read() if os.path.exists(os.path.join(d, 'detection.txt')) else ''
    vio = re.findall(r'^VIOLATION property=\S+ replay=(\S+)( no-failing-input-found)?', det, flags=re.M)
    res = re.search(r'RESULT (\S+) exit=(\d)', det)
    caught_by = []
    for path, nf in vio:
        base = os.path.basename(path).replace('.json', '')
        caught_by.append(('bounded stand-in: ' + base[8:] if base.startswith('bounded.') else 'obligation ' + base) + (' (no failing input found)' if nf else ''))
    meta = dict(
        id=sid, property=prop, files=files, change=title,
        needs_to_manifest=body[:2500],
        confirmed=dict(base_commit=conf.get('base_commit'), demo_rc_clean=conf.get('demo_rc_clean'), demo_rc_patched=conf.get('demo_rc_patched'),
                       baseline_tests_passed_with_patch=conf.get('tests_passed_with_patch'), ran=conf.get('ran', [])),
        detection=dict(command=f'tools/try_patch.sh seeded/{sid}/patch.diff {prop}  (scratch copy of /repo with the patch, ./vv check {prop} --tier quick)',
                       exit=int(res.group(2)) if res else None, detected=bool(vio) and bool(res) and res.group(2) == '1', caught_by=caught_by),
        origin='fresh sub-agent given only the property text and its own scratch worktree; confirmed independently with tools/confirm_seed.sh',
    )
    json.dump(meta, open(os.path.join(d, 'meta.json'), 'w'), indent=1)
    rows.append(meta)
with open(os.path.join(HERE, 'README.md'), 'w') as f:
    f.write('# Seeded property-breaking changes\n\nEach directory: `patch.diff` (against /repo HEAD), `demo.py` (exit 0 clean / 1 patched), `notes.md` (author\'s description), '
            '`confirm.json` + logs (my own confirmation: demo clean/patched, 30 baseline tests with the patch), `detection.txt` (what the registered quick check printed '
            'on a scratch copy with the patch), `meta.json` (summary).  None of these is ever committed to /repo.\n\n'
            '| seed | file(s) | change | baseline tests | check exit | caught by |\n|---|---|---|---|---|---|\n')
    for m in rows:
        cb = '; '.join(m['detection']['caught_by'][:3])[:300] or '-'
        f.write(f"| {m['id']} | {', '.join(os.path.basename(x) for x in m['files'])} | {m['change'][:110]} | {m['confirmed']['baseline_tests_passed_with_patch']} pass | "
                f"{m['detection']['exit']} | {cb} |\n")
print(len(rows), 'seeds;', sum(1 for m in rows if m['detection']['detected']), 'detected')
