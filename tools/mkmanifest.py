#!/usr/bin/env python3
"""writes MANIFEST.json from the table below (kept in one place so the file is always schema-valid)"""
import json, os
HERE = os.path.dirname(os.path.dirname(os.path.abspath(__file__)))
CHECKS = {
 'C19': dict(cat='proof', tech='contract-based deductive verification: AST->VC (loop invariant with ghost prefix sums, bounds on every subscript, rejection clause) discharged by z3/cvc5; bounded run-time contract check for dtype pairings',
    text='Every obligation generated from the current source of util.cumsum (bounds of each subscript under numba wrap semantics, loop invariant init/step, postcondition out[j]=offset+sum(arr[:j+1-initial]), total, rejection iff wrong length, frame) is discharged for all lengths >= 0 and all four flag settings; dtype pairings/list input are only bounded (lengths 0..5).',
    note='element arithmetic mathematical (no overflow/rounding); numba index semantics as observed; z3/cvc5; encoder cross-checked at run time', ref='6/C19'),
 'C04': dict(cat='proof', tech='contract-based deductive verification: bit-vector VCs over all 2^32/2^64 words from the real kernel ASTs (numba integer typing), loop invariants, wrappers by full output-mode enumeration against callee contracts; z3 (bv2int) + bounded compiled-kernel cross-check',
    text='Kernels _unpack_rvint/_unpack_pids are proved equal to spec functions written from the documented bit ranges for every word, every output selection (4 + 32 None-patterns), all lengths; wrappers unpack_rvint (9 modes), unpack_pids (32 selections), empty_bitpacked_arrays are proved against the kernel contracts; half-quantum lemma in reals. float32 rounding only bounded.',
    note='floats as reals; numba typing table observed and cross-checked at run time; reshape/view identity on (N,3) arrays; z3 int-blasting', ref='6/C04'),
 'C15': dict(cat='proof', tech='contract-based deductive verification: nibble expansion by bit-vectors (all 2^72 records), header/particle state machine by loop invariant with ghost rank/last-header functions and inductive lemmas; z3 + bounded compiled-kernel cross-check',
    text='_expand_to_short proved for every 9-byte record; _unpack_pack9 proved to write particle rank(r) of every non-header record r with position/velocity from the most recent header, return rank(N), for all streams starting with a valid header, any pos/vel selection; wrapper unpack_pack9 in 9 modes against the kernel contract; quantum lemma.',
    note='floats as reals (0.0005 = 1/2000); precondition leading header with cpd>=1; int64 counters mathematical; format constants as documented in the module', ref='6/C15'),
 'C06': dict(cat='proof', tech='contract-based deductive verification: real _tsc_scatter / cic_serial ASTs against a code-independent spline spec (floor-based 4-candidate sum, congruence wrap), loop invariant = additivity, per-axis lemmas + product-of-sums step, kernel lemmas in reals (partition of unity, non-negativity, shift); z3; bounded compiled-kernel cross-check',
    text='For all particle sets, weights, grids >= 2 cells per axis (z may be 1 cell), offsets up to half a cell and positions in [0, BoxSize]: density_out[c] = density_in[c] + sum_n W_n A(px,cx) A(py,cy) A(pz,cz) with A the wrapped TSC/CIC spline; every subscript in bounds; int16/int32 index casts fit; conservation, non-negativity and whole-cell shift equivariance are proved as lemmas about A. float32/fastmath only bounded.',
    note='floats as reals; grid axes < 32766; numba negative-index wrap; trusted: z3 (NRA/LIA), the sound hypothesis-slicing/abstraction stages of pyvc', ref='6/C06'),
 'C07': dict(cat='proof', tech='contract-based deductive verification: configuration logic of tsc_parallel (real AST slice), stripe-geometry lemma over the C06 spline spec, _tsc_parallel bounds/phases and prange footprint disjointness against the callee frame of _tsc_scatter; z3; deterministic per-stripe row-overlap replay',
    text='Every accepted configuration with >1 thread and >1 stripe has an even number of stripes of width >= 3 cells (default choice accepted, all n1d/nthread/npartition, coord 0..2); lemma: distinct stripes of equal parity share no grid row for offsets in [0,1/2] incl. the periodic wrap and the closed last stripe (tight: refutable at width 2); _tsc_parallel: slices in bounds, iteration footprints pairwise disjoint, so every interleaving equals the sequential loop. The final summation over stripes (parallel == serial deposit) is a corollary of C06 additivity + the phase-cover lemma, not a machine-checked postcondition.',
    note='floats as reals (tight at width 3); prange meta-theorem trusted; partition postcondition (C17) used as precondition of _tsc_parallel', ref='6/C07'),
 'C17': dict(cat='proof', tech='contract-based deductive verification: real partition_parallel AST against a stable-counting-sort spec (ghost prefix counts H/G, DEST), loop invariants for both prange passes and inner loops, prange footprint disjointness, inductive lemmas (monotonicity, split, total, injectivity, prefix link) in z3/cvc5; numpy prefix-sum idiom as an assumed block contract; bounded compiled cross-check',
    text='For all inputs (any N incl. 0, npartition >= 1, coord, weights on/off, every nthread >= 1): keys = clamped floor(x*np/box) in range, psort[DEST(q)] = pos[q], wsort[DEST(q)] = weights[q], starts[k] = #{key < k}, starts[np] = N, non-decreasing; DEST injective, in range, stable and inside its stripe (lemmas by induction); inputs unmodified; all subscripts in bounds; int32 stores fit; iteration footprints of both parallel passes disjoint. sort=True and float edge effects only bounded.',
    note='assumed: np.linspace/astype monotone 0..N, cumsum-reshape-transpose idiom = (stripe, thread)-ordered exclusive prefix sums, np.empty/zeros; floats as reals; L2 (injective self-map of a finite set is a permutation, Lean-checked statement) ; prange meta-theorem', ref='6/C17'),
 'C08': dict(cat='proof', tech='contract-based deductive verification (assertional refinement on the real loop nests of bin_kmu/bin_kppi): fold, placement, multiplicity and no-drop obligations at each continue/break/increment, search-loop invariants with variants, per-thread reduction planes, bounds; Legendre P_n by exact polynomial identity on the real P_n/n_choose_k/factorial code; z3; brute-force full-mesh cross-check',
    text='For every mesh size n >= 1 (odd and even), every non-negative edge array, mu edges from 0 to >= 1, any thread count: each visited half-mesh mode has |k|^2 = freq(i)^2+freq(j)^2+k^2 with the documented fold, is added to a cell whose edges bracket |k|^2 and mu^2, with multiplicity 1 on the kz=0 and Nyquist planes and 2 otherwise; a mode is skipped only outside [first, last) edge and a loop is left only when every remaining iteration lies beyond the last edge; per-thread accumulators only touch their own plane; no subscript out of bounds. P_n(mu^2, n) = Legendre_n(mu) for n = 0..10. Final sums/means rely on the trusted sum-of-update lemma and are cross-checked by brute force over the full n^3 mesh.',
    note='floats as reals; edge-array squaring and linspace as block contracts; L1/L4 trusted; get_thread_id contract assumed', ref='6/C08'),
}
NOT_YET = {}
props = [json.loads(l) for l in open(os.path.join(HERE, 'properties.jsonl'))]
checks, na = [], []
for p in props:
    i = p['id']
    if i in CHECKS:
        c = CHECKS[i]
        checks.append(dict(property_id=i, quick_cmd=f'./vv check {i} --tier quick', thorough_cmd=f'./vv check {i} --tier thorough',
                           evidence_file=f'evidence/{i}.json', replay_cmd_template='./vv replay {path}', engine='pyvc',
                           level_claimed=dict(category=c['cat'], text=c['text'], design_ref=c['ref']), level_note=c['note'],
                           technique=c['tech']))
    else:
        na.append(dict(property_id=i, reason=NOT_YET.get(i, 'check not built yet in this session (work in progress; see DESIGN.md section 6 for the plan)')))
m = dict(version=1, setup_cmd='./vv setup',
         hooks=dict(guard='ABACUSUTILS_VERIF', enable='no source hooks: contracts are sidecar files under /verif/contracts; checks read /repo sources directly',
                    baseline_off_cmd='cd /repo && /venv/bin/python -m pytest -ra -q -p no:cacheprovider --timeout=900 --continue-on-collection-errors',
                    source_commits=[], add_only=True),
         engines=[dict(name='pyvc', path='pyvc/', serves_properties=sorted(CHECKS), kind_free_text='AST->VC deductive engine over the real numba/Python sources (z3 + cvc5), sidecar contracts, run-time contract replay')],
         checks=checks, not_applicable=na,
         notes='Contract-based deductive verification; see DESIGN.md. Exit codes: 0 held, 1 violation, 2 undecided, 3 engine crash.')
json.dump(m, open(os.path.join(HERE, 'MANIFEST.json'), 'w'), indent=1)
print('manifest:', len(checks), 'checks,', len(na), 'not applicable')
