#!/bin/bash
# runs every kept seeded change against the check of its property (scratch copy) and records what the check printed
cd /verif
for d in seeded/*/; do
  id=$(basename $d); p=${id%%_*}
  [ -f "$d/patch.diff" ] || continue
  if [ -n "$1" ] && [ "$1" != "$p" ]; then continue; fi
  LINES_MAX=6 tools/try_patch.sh "$d/patch.diff" "$p" > "$d/detection.txt" 2>&1
  echo "$id: $(grep -c VIOLATION $d/detection.txt) violation lines; $(grep RESULT $d/detection.txt)"
done
