"""Loops with invariants (havoc / assume / body / assert) and the prange rule (DESIGN 3.6)."""
import ast

import z3

from .engine import (SV, Arr, St, Unsupported, ContractError, I, conc_int, simp, fresh, sort_of, POISON,
                     norm_src, RangeVal)


def assigned_names(body):
    names = set()
    for s in body:
        for x in ast.walk(s):
            if isinstance(x, ast.Assign):
                for t in x.targets:
                    _tnames(t, names)
            elif isinstance(x, (ast.AugAssign, ast.AnnAssign)):
                _tnames(x.target, names)
            elif isinstance(x, ast.For):
                _tnames(x.target, names)
    return names


def _tnames(t, out):
    if isinstance(t, ast.Name):
        out.add(t.id)
    elif isinstance(t, (ast.Tuple, ast.List)):
        for e in t.elts:
            _tnames(e, out)


def stored_array_names(body):
    """names x with a store x[...] = / x[...] op= in the body"""
    names = set()
    for s in body:
        for x in ast.walk(s):
            tg = []
            if isinstance(x, ast.Assign):
                tg = x.targets
            elif isinstance(x, ast.AugAssign):
                tg = [x.target]
            for t in tg:
                if isinstance(t, ast.Subscript):
                    b = t.value
                    while isinstance(b, ast.Subscript):
                        b = b.value
                    if isinstance(b, ast.Name):
                        names.add(b.id)
    return names


def called_names(body):
    out = []
    for s in body:
        for x in ast.walk(s):
            if isinstance(x, ast.Call):
                out.append(x)
    return out


def havoc(e, st, body, lspec, extra_names=()):
    """forget everything the loop body may change: assigned names (scalars only), stored-to arrays, arrays in the
    frames of contracted callees, and whatever the loop spec lists under modifies"""
    names = assigned_names(body) | set(extra_names)
    names |= {m for m in lspec.modifies if m in st.env and not isinstance(st.env[m], Arr)}      # ghost scalars updated by callee contracts
    arrs = stored_array_names(body) | set(lspec.modifies)
    # 1-D view variables re-bound in the loop (block = block[k:]): same base, arbitrary new window (the invariant says which)
    for nm in lspec.views:
        v = st.env.get(nm)
        if not isinstance(v, Arr) or v.ndim != 1 or len(v.axes) != 1:
            raise ContractError(f'loop spec declares {nm} as a re-bound 1-D view, found {v!r}')
        off, ln = fresh(nm + '_off', z3.IntSort()), fresh(nm + '_len', z3.IntSort())
        st.pc += [off >= 0, ln >= 0]
        st.env[nm] = Arr(v.base, [('r', off, ln)], v.ety, v.dt, v.readonly)
    names -= set(lspec.views) | set(lspec.kinds)      # kinds: re-created per structural mode by expand_kinds
    # arrays written by contracted callees
    for c in called_names(body):
        fn = c.func
        q = fn.id if isinstance(fn, ast.Name) else None
        cs = e.spec.callees.get(q) if q else None
        if cs is not None and cs.frame:
            # map frame params to actual argument names where they are plain names or slices of names
            mi = st.env.get('__mod__')
            fdef = mi.funcs.get(q) if mi else None
            pnames = [a.arg for a in fdef.args.args] if fdef else cs.params
            actual = {}
            for p, a in zip(pnames, c.args):
                actual[p] = a
            for k in c.keywords:
                actual[k.arg] = k.value
            for p in cs.frame:
                a = actual.get(p)
                while isinstance(a, ast.Subscript):
                    a = a.value
                if isinstance(a, ast.Name):
                    arrs.add(a.id)
    bases = set()
    for nm in arrs:
        v = st.env.get(nm)
        if isinstance(v, Arr):
            bases.add(v.base)
        elif nm in names:
            pass
        elif v is None and nm not in st.env:
            pass
    for nm in lspec.no_havoc:
        v = st.env.get(nm)
        if isinstance(v, Arr):
            bases.discard(v.base)
    for b in sorted(bases):
        st.heap[b] = fresh(b + '_l', st.heap[b].sort())
    for nm in sorted(names):
        v = st.env.get(nm)
        if isinstance(v, SV):
            st.env[nm] = SV(fresh(nm, sort_of(v.ty)), v.ty)
        elif isinstance(v, Arr):
            # a view variable re-bound in the loop: keep only if never read before assignment (engine cannot know)
            st.env[nm] = POISON
        elif nm in st.env and v is not None and not isinstance(v, (int, float, bool, str, tuple)):
            st.env[nm] = POISON
        elif nm in st.env and isinstance(v, (int, float, bool)) and not isinstance(v, SV):
            # concrete scalar that the loop modifies becomes symbolic of the same kind
            ty = 'bool' if isinstance(v, bool) else ('int' if isinstance(v, int) else 'real')
            st.env[nm] = SV(fresh(nm, sort_of(ty)), ty)
    return bases


def expand_kinds(e, h, lspec):
    """structural modes: a variable that is None in some iterations and an array in others gets one loop head per kind
    (the step is verified from every head; the end of the body is checked against whatever structure the path produced)"""
    heads = [h]
    for nm, kinds in sorted(lspec.kinds.items()):
        nxt = []
        for hd in heads:
            for kd in kinds:
                q = hd.fork() if len(kinds) > 1 else hd
                if kd == 'none':
                    q.env[nm] = None
                else:
                    m = __import__('re').fullmatch(r'(\w+)\[:\]', kd)
                    if not m:
                        raise ContractError(f'loop kinds: unsupported kind {kd}')
                    ln = fresh('len_' + nm, z3.IntSort())
                    q.pc.append(ln >= 0)
                    cur = hd.env.get(nm)
                    dt = cur.dt if isinstance(cur, Arr) else None
                    q.env[nm] = e.new_array(q, nm, [ln], m.group(1), dt)
                nxt.append(q)
        heads = nxt
    return heads


def inv_formula(e, st, lspec):
    fs = []
    for t in lspec.invariant:
        fs.append(e.spec_bool(t, st))
    return fs


def check_inv(e, st, lspec, node, kind, k):
    for t in lspec.invariant:
        g = e.spec_bool(t, st)
        e.oblige(st, kind, g, node, label=f'loop{k}: {t}')


def symbolic_for(e, s, st, rng, elems=None):
    k = e.loop_ordinal(s)
    lspec = e.spec.loops.get(k)
    if lspec is None:
        raise ContractError(f'{e.spec.qualname}: loop {k} ({norm_src(s.iter)}) has symbolic bounds and no invariant')
    if not isinstance(s.target, ast.Name):
        raise Unsupported('tuple loop target')
    var = s.target.id
    if elems is not None:
        # loop over a chunk sequence: the position index is hidden in the program; the contract names it (LoopSpec.index)
        var = lspec.index or '__chunk_index'
    start, stop = I(rng.start), I(rng.stop)
    step = conc_int(simp(I(rng.step)))
    if step is None or step <= 0:
        raise Unsupported('range step must be a positive constant')
    parallel = rng.parallel and e.flags.get('parallel', False)
    # entry: i = start
    st.env[var] = SV(start, 'int')
    st.env['__loop_entry__%d' % k] = St(dict(st.env), dict(st.heap), st.pc)
    check_inv(e, st, lspec, s, 'inv_init', k)
    entry = St(dict(st.env), dict(st.heap), list(st.pc))
    # havoc
    h = st
    havoc(e, h, s.body, lspec)
    iv = fresh(var, z3.IntSort())
    h.env[var] = SV(iv, 'int')
    if step == 1:
        h.pc.append(iv >= start)
    else:
        kk = fresh('iter', z3.IntSort())
        h.pc.append(z3.And(kk >= 0, iv == start + step * kk))
    h.env['__pre_loop__'] = entry
    if lspec.kinds:
        if parallel:
            raise Unsupported('structural kinds in a prange loop')
        outs = []
        for hd in expand_kinds(e, h, lspec):
            outs += _for_head(e, s, hd, lspec, k, var, iv, start, stop, step, parallel, entry, elems)
        return outs
    return _for_head(e, s, h, lspec, k, var, iv, start, stop, step, parallel, entry, elems)


def _for_head(e, s, h, lspec, k, var, iv, start, stop, step, parallel, entry, elems):
    h.pc.extend(inv_formula(e, h, lspec))
    # body
    b = h.fork()
    b.pc.append(iv < stop)
    if elems is not None:
        sa = elems.stream
        b.env[s.target.id] = Arr(sa.base, [('r', elems.cut(iv), elems.cut(iv + 1) - elems.cut(iv))], sa.ety, sa.dt, True)
    b.env['__inv_clauses__'] = list(lspec.invariant)
    b.env['__iter_start__'] = St(dict(b.env), dict(b.heap), b.pc)
    saved_ctx = e.prange_ctx
    saved_hints = e.cur_body_asserts
    e.cur_body_asserts = lspec.body_asserts
    if parallel:
        if lspec.writes is None:
            raise ContractError(f'{e.spec.qualname}: prange loop {k} needs a writes footprint')
        e.prange_ctx = PrangeCtx(e, lspec, var, iv, entry, s, k, start, stop)
        e.prange_ctx.disjointness(e, b)
    outs = []
    try:
        body_out = e.exec_block(s.body, [b])
    finally:
        e.prange_ctx = saved_ctx
        e.cur_body_asserts = saved_hints
    for q in body_out:
        if q.flow in (None, 'continue'):
            q.flow = None
            q.env[var] = SV(simp(iv + step), 'int')
            for a in lspec.asserts:
                e.hint(q, a, s)
            check_inv(e, q, lspec, s, 'inv_step', k)
        elif q.flow == 'break':
            if parallel:
                raise Unsupported('break in prange')
            q.flow = None
            outs.append(q)
        else:
            outs.append(q)       # return / raise inside the loop
    # exit
    x = h
    x.pc.append(iv >= stop)
    if step == 1:
        x.pc.append(iv == z3.If(stop > start, stop, start))
    x.env[var] = SV(iv, 'int')
    for a in lspec.exit_asserts:
        e.hint(x, a, s)
    # the loop variable after the loop holds the last iterated value in Python, not `iv`: poison it
    x.env['__loopvar_' + var] = SV(iv, 'int')
    x.env[var] = POISON if not getattr(lspec, 'keep_var', False) else SV(iv - step, 'int')
    outs.append(x)
    return outs


def symbolic_while(e, s, st):
    k = e.loop_ordinal(s)
    lspec = e.spec.loops.get(k)
    if lspec is None:
        raise ContractError(f'{e.spec.qualname}: while loop {k} has no invariant')
    check_inv(e, st, lspec, s, 'inv_init', k)
    entry = St(dict(st.env), dict(st.heap), list(st.pc))
    h = st
    havoc(e, h, s.body, lspec)
    h.env['__pre_loop__'] = entry
    outs = []
    for hd in expand_kinds(e, h, lspec):
        outs += _while_head(e, s, hd, lspec, k)
    return outs


def _while_head(e, s, h, lspec, k):
    h.pc.extend(inv_formula(e, h, lspec))
    outs = []
    # guard evaluation may itself create obligations (array reads): evaluate on a fork for body and on exit
    b = h.fork()
    saved_hints = e.cur_body_asserts
    e.cur_body_asserts = lspec.body_asserts
    try:
        gstates = guard_states(e, s.test, b)
        for q, val in gstates:
            if val:
                v0 = None
                if lspec.variant is not None:
                    v0 = I(e.spec_eval(lspec.variant, q))
                    e.oblige(q, 'variant_bound', v0 >= 0, s, label=f'loop{k}: variant {lspec.variant} >= 0')
                for r in e.exec_block(s.body, [q]):
                    if r.flow in (None, 'continue'):
                        r.flow = None
                        for a in lspec.asserts:
                            e.hint(r, a, s)
                        check_inv(e, r, lspec, s, 'inv_step', k)
                        if v0 is not None:
                            v1 = I(e.spec_eval(lspec.variant, r))
                            e.oblige(r, 'variant_dec', v1 < v0, s, label=f'loop{k}: variant {lspec.variant} decreases')
                    elif r.flow == 'break':
                        r.flow = None
                        outs.append(r)
                    else:
                        outs.append(r)
            else:
                for a in lspec.exit_asserts:
                    e.hint(q, a, s)
                outs.append(q)
    finally:
        e.cur_body_asserts = saved_hints
    return outs


def guard_states(e, test, st):
    """evaluate a loop guard with short-circuit semantics; returns [(state, bool)]"""
    if isinstance(test, ast.BoolOp):
        is_and = isinstance(test.op, ast.And)
        states = [(st, None)]
        res = []
        for i, sub in enumerate(test.values):
            nxt = []
            for q, _ in states:
                for r, val in guard_states(e, sub, q):
                    if is_and and not val:
                        res.append((r, False))
                    elif (not is_and) and val:
                        res.append((r, True))
                    else:
                        nxt.append((r, val))
            states = nxt
        for q, _ in states:
            res.append((q, is_and))
        return res
    c = e.truth(e.ev(test, st))
    if isinstance(c, bool):
        return [(st, c)]
    out = []
    a = st.fork()
    if e.feasible(a, c):
        a.pc.append(c)
        out.append((a, True))
    nc = simp(z3.Not(c))
    if e.feasible(st, nc):
        st.pc.append(nc)
        out.append((st, False))
    return out


def skolemize(f):
    """positive existential quantifiers at the top of a formula (through conjunctions) replaced by fresh constants"""
    consts = []

    def walk(g):
        if z3.is_and(g):
            return z3.And(*[walk(c) for c in g.children()])
        if z3.is_quantifier(g) and g.is_exists():
            cs = [fresh('w_' + g.var_name(k).replace('?b', ''), g.var_sort(k)) for k in range(g.num_vars())]
            consts.extend(cs)
            return walk(z3.substitute_vars(g.body(), *reversed(cs)))
        return g
    return walk(f), consts


class PrangeCtx:
    """footprint discipline for one prange loop.
    writes = {array name: (idxvars, predicate over t and idxvars)}: every store of iteration t into a shared
    array must satisfy the predicate; predicates of distinct iterations must be disjoint; loads from an
    array that the loop writes must fall inside the iteration's own footprint (no read of another
    iteration's cells).  Together with the trusted meta-theorem (independent, race-free iterations
    commute) every schedule equals the sequential loop, which is what the invariant proves."""

    def __init__(self, e, lspec, var, iv, entry, node, k, start, stop):
        self.lspec, self.var, self.iv, self.entry, self.node, self.k = lspec, var, iv, entry, node, k
        self.start, self.stop = start, stop
        self.bases = {}
        for nm, fp in lspec.writes.items():
            a = entry.env.get(nm)
            if not isinstance(a, Arr):
                raise ContractError(f'prange footprint names {nm}, which is not an array at loop entry')
            self.bases[a.base] = (nm, a, fp)
        self.private = set()      # array bases allocated inside the body are private
        self.entry_bases = set(entry.heap)
        self.tid = None

    def pred(self, e, st, nm, fp, t, idx_terms):
        ivars, p = fp[0], fp[1]
        names = [x.strip() for x in ivars.split(',')]
        if len(names) != len(idx_terms):
            raise ContractError(f'footprint of {nm}: {len(names)} index variables for {len(idx_terms)} axes')
        env = dict(self.entry.env)
        env[self.var] = SV(t, 'int')
        for a, b in zip(names, idx_terms):
            env[a] = SV(b, 'int')
        if self.tid is not None:
            env['__tid__'] = SV(self.tid, 'int')
        return e.spec_bool(p, St(env, self.entry.heap, st.pc))

    def disjointness(self, e, st):
        t1 = fresh('t1', z3.IntSort())
        t2 = fresh('t2', z3.IntSort())
        for base, (nm, a, fp) in self.bases.items():
            if fp is None or (len(fp) > 2 and fp[2] == 'reduction'):
                # per-thread accumulator planes: iterations run by the same thread are sequential; distinct threads
                # have distinct ids (assumed contract of numba.get_thread_id), so only the plane test is checked
                continue
            nidx = len(a.raxes)
            qs = [fresh('c', z3.IntSort()) for _ in range(nidx)]
            p1 = self.pred(e, st, nm, fp, t1, qs)
            p2 = self.pred(e, st, nm, fp, t2, qs)
            hyp = z3.And(t1 >= self.start, t1 < self.stop, t2 >= self.start, t2 < self.stop, t1 != t2,
                         *[z3.And(q >= 0, q < ln) for q, ln in zip(qs, a.shape)])
            sub = St(st.env, st.heap, list(self.entry.pc))
            sub.pc.append(hyp)
            s1, c1 = skolemize(p1)
            s2, c2 = skolemize(p2)
            if c1 or c2:
                # footprints given by existential witnesses (the cell is the destination of SOME own element): assume both with fresh
                # witnesses, instantiate the universal hypotheses (injectivity lemmas) at them, and derive a contradiction
                sub.pc += [s1, s2]
                e.instantiate_at(sub, c1 + c2)
                e.oblige(sub, 'prange_disjoint', z3.BoolVal(False), self.node,
                         label=f'loop{self.k}: footprints of distinct iterations on {nm} are disjoint')
            else:
                e.oblige(sub, 'prange_disjoint', z3.Not(z3.And(p1, p2)), self.node,
                         label=f'loop{self.k}: footprints of distinct iterations on {nm} are disjoint')

    def view_rel_index(self, arr, a0, idxs):
        """index of the accessed cell relative to the array as named at loop entry (a0)"""
        bidx = []
        it = iter(idxs)
        for ax in arr.axes:
            bidx.append(ax[1] if ax[0] == 'i' else ax[1] + next(it))
        rel = []
        for ax0, b in zip(a0.axes, bidx):
            if ax0[0] == 'r':
                rel.append(simp(b - ax0[1]))
        return rel

    def check(self, e, st, arr, idxs, node, rw):
        if arr.base not in self.entry_bases:
            return       # allocated inside this iteration: private
        ent = self.bases.get(arr.base)
        if ent is None:
            if rw == 'w':
                e.oblige(st, 'prange_write', z3.BoolVal(False), node,
                         label=f'loop{self.k}: store to shared array without declared footprint: {norm_src(node)}')
            return
        nm, a0, fp = ent
        if fp is None:
            return
        rel = self.view_rel_index(arr, a0, idxs)
        g = self.pred(e, st, nm, fp, self.iv, rel)
        e.oblige(st, 'prange_write' if rw == 'w' else 'prange_read', g, node,
                 label=f'loop{self.k}: {"store" if rw == "w" else "load"} {norm_src(node)} inside own footprint of {nm}')

    def check_view(self, e, st, view, node, rw):
        if view.base not in self.entry_bases:
            return
        ent = self.bases.get(view.base)
        if ent is None:
            e.oblige(st, 'prange_write', z3.BoolVal(False), node,
                     label=f'loop{self.k}: slice store to shared array without declared footprint')
            return
        nm, a0, fp = ent
        if fp is None:
            return
        qs = [fresh('v', z3.IntSort()) for _ in view.raxes]
        rel = self.view_rel_index(view, a0, qs)
        inside = z3.And(*[z3.And(q >= 0, q < ln) for q, ln in zip(qs, view.shape)])
        sub = St(st.env, st.heap, list(st.pc))
        sub.pc.append(inside)
        g = self.pred(e, sub, nm, fp, self.iv, rel)
        e.oblige(sub, 'prange_write', g, node, label=f'loop{self.k}: slice store {norm_src(node)} inside own footprint of {nm}')

    def check_callee_frame(self, e, st, a, fr, env, old_heap, node, q):
        """every cell a contracted callee may write (its frame predicate inside the passed view) lies in the
        calling iteration's own footprint"""
        if a.base not in self.entry_bases:
            return
        ent = self.bases.get(a.base)
        if ent is None:
            e.oblige(st, 'prange_write', z3.BoolVal(False), node,
                     label=f'loop{self.k}: callee {q} writes a shared array without declared footprint')
            return
        nm, a0, fp = ent
        if fp is None:
            return
        qs = [fresh('w', z3.IntSort()) for _ in a.raxes]
        inside = [z3.And(x >= 0, x < ln) for x, ln in zip(qs, a.shape)]
        sub = St(st.env, st.heap, list(st.pc))
        sub.pc.extend(inside)
        if fr is not None:
            ivars, pred = fr
            penv = dict(env)
            for vn, x in zip([v.strip() for v in ivars.split(',')], qs):
                penv[vn] = SV(x, 'int')
            sub.pc.append(e.spec_bool(pred, St(penv, old_heap, sub.pc)))
        rel = self.view_rel_index(a, a0, qs)
        g = self.pred(e, sub, nm, fp, self.iv, rel)
        e.oblige(sub, 'prange_write', g, node, label=f'loop{self.k}: cells written by {q} inside own footprint of {nm}')

    def thread_id(self, e, st):
        if self.tid is None:
            self.tid = fresh('tid', z3.IntSort())
            nt = e.symconst('NUMBA_NUM_THREADS', 'int', [lambda t: t >= 1])
            st.pc.append(z3.And(self.tid >= 0, self.tid < nt.t))
        return SV(self.tid, 'int')
