"""Per-property run: obligations -> verdicts -> replay -> known findings -> evidence -> exit code.

Exit codes: 0 held / 1 violation (replayed input or named obligation) / 2 undecided / 3 engine crash.
"""
import json
import os
import re
import time
import traceback

import z3

from . import engine as E
from . import solve

VERIF = os.path.dirname(os.path.dirname(os.path.abspath(__file__)))


def load_known():
    path = os.path.join(VERIF, 'known_findings.jsonl')
    out = []
    if os.path.exists(path):
        for ln in open(path):
            ln = ln.strip()
            if ln and not ln.startswith('#'):
                out.append(json.loads(ln))
    return out


class Run:
    def __init__(self, prop, tier, seed, repo='/repo'):
        self.prop, self.tier, self.seed, self.repo = prop, tier, seed, repo
        self.t0 = time.time()
        self.eng = E.Engine(repo)
        self.specs = []
        self.undecided = []        # reasons
        self.violations = []       # dict(obligation/what, replay path, reproduced)
        self.known_hits = []
        self.bounded = []          # dict(name, evaluations, distinct_nontrivial, rule, exhaustive, samples)
        self.notes = []
        self.assumptions = []
        self.trusted = []
        self.vacuity = dict(requires_sat=0, canaries_refuted=0)
        self.replayers = {}        # fn spec name -> callable(model) -> (reproduced, detail) | None
        self.level = 'proof'
        self.extra = {}
        self.lemma_obls = 0
        self.timeout_ms = 30000 if tier == 'quick' else 120000
        self.known = [k for k in load_known() if k.get('property') == prop]
        self.pending = []
        self._battery_memo = {}
        # runs against a scratch copy (mutation testing) must never overwrite the evidence of the real tree
        self.outroot = VERIF if os.path.realpath(repo) == '/repo' else os.path.join(VERIF, '.work', 'scratch')
        rd = os.path.join(self.outroot, 'replays', prop)
        os.makedirs(rd, exist_ok=True)
        for f in os.listdir(rd):
            os.unlink(os.path.join(rd, f))
        os.makedirs(os.path.join(self.outroot, 'evidence'), exist_ok=True)

    # ------------------------------------------------------------------ proving
    def prove(self, spec, replayer=None):
        """register one function spec; obligations are generated in discharge(), one fresh process per spec, so that the
        z3 term ids / fresh names (and with them the shape of the formulas) do not depend on which other specs ran before"""
        self.pending.append(spec)
        if replayer is not None:
            self.replayers[spec.name] = replayer

    def _generate(self):
        global _PENDING, _REPO
        _PENDING, _REPO = self.pending, self.repo
        if not self.pending:
            return
        import multiprocessing as mp
        workers = min(16, os.cpu_count() or 1, len(self.pending))
        with mp.get_context('fork').Pool(workers, maxtasksperchild=1) as pool:
            results = pool.map(_gen_worker, range(len(self.pending)), chunksize=1)
        for spec, res in zip(self.pending, results):
            if 'error' in res:
                if res['error'].startswith('CRASH'):
                    raise RuntimeError(f'engine crash while generating obligations of {spec.name}:\n' + res['error'])
                self.undecided.append(f'{spec.name}: {res["error"]}')
                continue
            self.specs.append(spec)
            for d in res['obls']:
                o = E.Obl(d['name'], d['kind'], [], None, d['src'], d['lineno'], d['fn'])
                o.smt2 = d['smt2']
                o.goal_str, o.hyp_strs, o.nhyp = d['goal'], d['hyps'], d['nhyp']
                o.result = d['result']
                self.eng.obls.append(o)
            self.eng.fninfo.append(res['info'])
            for a in res['assumed']:
                if a not in self.eng.assumed:
                    self.eng.assumed.append(a)
            v = res['vacuity']
            if v == 'unsat':
                self.undecided.append(f'{spec.name}: VACUOUS precondition (requires unsatisfiable)')
            elif v == 'sat':
                self.vacuity['requires_sat'] += 1
                self.vacuity['canaries_refuted'] += 1      # pc & not(False) sat == the canary 'assert False' is refuted
            else:
                self.notes.append(f'{spec.name}: precondition satisfiability unknown')
        self.pending = []

    def lemma(self, name, hyps, goal, kind='lemma'):
        """a stand-alone lemma obligation (pure z3 formulas) proved by the same back ends"""
        o = E.Obl(f'{self.prop}.{name}', kind, list(hyps), goal, name, 0, 'lemma')
        self.eng.obls.append(o)
        self.lemma_obls += 1
        return o

    def refutable(self, name, hyps, goal):
        """vacuity / tightness guard: this obligation must be REFUTED (sat); otherwise the check is undecided"""
        s = z3.Solver()
        s.set('timeout', 20000)
        s.add(*hyps)
        s.add(z3.Not(goal))
        r = s.check()
        if r == z3.sat:
            self.vacuity['canaries_refuted'] += 1
            return s.model()
        self.undecided.append(f'canary {name} was not refuted ({r}): hypotheses may be vacuous')
        return None

    def discharge(self):
        self._generate()
        obls = self.eng.obls
        solve.discharge(obls, timeout_ms=self.timeout_ms, seed=self.seed % 1000,
                        cross_cvc5=(self.tier == 'thorough'))
        for o in obls:
            r = o.result
            if r['status'] == 'unsat':
                continue
            self._failed(o)

    def _failed(self, o):
        r = o.result
        model = r.get('model') or r.get('candidate')
        rep = self.replayers.get(o.fn)
        reproduced, detail = None, None
        if len(self.violations) >= 6:
            rep = None              # the report is capped at 6 violation lines: no further replays (they run the real code and take time)
        if rep is not None and model is not None:
            try:
                reproduced, detail = _isolated(rep, o, model)
            except Exception as ex:       # replay harness problems are not verdicts
                detail = 'replay harness error: ' + repr(ex) + '\n' + traceback.format_exc()
                reproduced = None
        if not reproduced and rep is not None:
            # bounded search around the obligation: the replayer's own battery (model=None)
            try:
                key = (id(rep), o.fn)
                if key not in self._battery_memo:
                    self._battery_memo[key] = _isolated(rep, o, None)
                reproduced, detail2 = self._battery_memo[key]
                if reproduced:
                    detail = detail2
            except Exception as ex:
                detail = (detail or '') + '\nbattery error: ' + repr(ex)
        path = os.path.join(self.outroot, 'replays', self.prop, re.sub(r'[^A-Za-z0-9_.#-]+', '_', o.name)[:150] + '.json')
        rec = dict(property=self.prop, obligation=o.name, kind=o.kind, function=o.fn, source=o.src, line=o.lineno,
                   solver_status=r['status'], backend=r.get('backend'), solver_detail=r.get('detail'),
                   model=model, reproduced=bool(reproduced), replay_detail=detail,
                   goal=(str(o.goal)[:2000] if o.goal is not None else getattr(o, 'goal_str', '')),
                   hypotheses=([str(f)[:400] for f in o.pc[-25:]] if o.pc else getattr(o, 'hyp_strs', [])))
        if reproduced:
            self._violation(o.name, path, rec, detail, True)
        elif r['status'] == 'sat':
            self._violation(o.name, path, rec, detail, False)
        else:
            json.dump(rec, open(path, 'w'), indent=1, default=str)
            self.undecided.append(f'{o.name[:160]}: {r["status"]} ({r.get("detail")}) stages={r.get("trace")}; replay file {path}')

    def _violation(self, what, path, rec, detail, reproduced):
        if any(v['what'] == what or v['replay'] == path for v in self.violations):
            return
        for k in self.known:
            if k.get('status') == 'known' and re.search(k['match'], what + ' ' + str(detail)):
                self.known_hits.append((k, what))
                return
        if len(self.violations) >= 6:
            self.suppressed = getattr(self, 'suppressed', 0) + 1
            return
        json.dump(rec, open(path, 'w'), indent=1, default=str)
        self.violations.append(dict(what=what, replay=path, reproduced=reproduced))

    # ------------------------------------------------------------------ bounded stand-in (E3)
    def bounded_violation(self, what, witness, detail):
        path = os.path.join(self.outroot, 'replays', self.prop, re.sub(r'[^A-Za-z0-9_.#-]+', '_', 'bounded.' + what)[:150] + '.json')
        rec = dict(property=self.prop, obligation='bounded:' + what, witness=witness, replay_detail=detail,
                   reproduced=True)
        self._violation('bounded:' + what, path, rec, detail, True)

    def add_bounded(self, name, evaluations, distinct_nontrivial, rule, samples, exhaustive=False):
        self.bounded.append(dict(name=name, evaluations=evaluations, distinct_nontrivial=distinct_nontrivial,
                                 rule=rule, samples=samples[:5], exhaustive=exhaustive))

    def pmap(self, fn, tasks, workers=None, timeout=2400):
        """bounded stand-ins are embarrassingly parallel: run module-level fn over tasks in forked worker processes (results in
        order).  The workers run the real compiled code: if one is killed (segmentation fault, abort) or the batch does not finish, the
        offending case is reported as a violation (a kernel that corrupts memory on a small input) and the check stops there."""
        import multiprocessing as mp
        from concurrent.futures import ProcessPoolExecutor, TimeoutError as FTimeout
        from concurrent.futures.process import BrokenProcessPool
        workers = workers or min(16, os.cpu_count() or 1, max(1, len(tasks)))
        if not tasks:
            return []
        ctx = mp.get_context('fork')
        try:
            with ProcessPoolExecutor(max_workers=workers, mp_context=ctx) as ex:
                return list(ex.map(fn, tasks, timeout=timeout))
        except (BrokenProcessPool, FTimeout) as first:
            # find the case: one worker per task, sequentially, each with its own deadline
            for t in tasks:
                try:
                    with ProcessPoolExecutor(max_workers=1, mp_context=ctx) as ex:
                        ex.submit(fn, t).result(timeout=min(timeout, 600))
                except (BrokenProcessPool, FTimeout) as exn:
                    what = 'was killed (segmentation fault / abort)' if isinstance(exn, BrokenProcessPool) else 'did not finish'
                    self.bounded_violation('the real code brought its worker process down', dict(task=repr(t)[:600]),
                                           f'worker process {what} while running {fn.__module__}.{fn.__name__} on {repr(t)[:300]}')
                    raise WorkerDied()
                except Exception:
                    continue
            self.undecided.append(f'worker pool broke ({first!r}) but no single case reproduces it')
            raise WorkerDied()

    # ------------------------------------------------------------------ finish
    def finish(self, crashed=None):
        obls = self.eng.obls
        n = len(obls)
        disch = sum(1 for o in obls if o.result and o.result['status'] == 'unsat')
        by = {}
        st = 0.0
        cv = dict(agree=0, other=0)
        for o in obls:
            if o.result:
                by[o.result.get('backend', '?')] = by.get(o.result.get('backend', '?'), 0) + 1
                st += o.result.get('time', 0.0)
                if 'cvc5' in o.result:
                    cv['agree' if o.result['cvc5'] == 'unsat' else 'other'] += 1
        if n == 0 and not self.bounded and not crashed:
            self.undecided.append('zero obligations generated')
        code = 0
        if crashed:
            code = 3
        elif self.violations:
            code = 1
        elif self.undecided:
            code = 2
        kinds = {}
        for o in obls:
            kinds[o.kind] = kinds.get(o.kind, 0) + 1
        samples = [dict(obligation=o.name, kind=o.kind, hypotheses=(len(o.pc) or getattr(o, 'nhyp', 0)), status=o.result['status'] if o.result else None,
                        backend=o.result.get('backend') if o.result else None,
                        seconds=round(o.result.get('time', 0), 3) if o.result else None)
                   for o in (obls[:3] + sorted(obls, key=lambda o: -(o.result or {}).get('time', 0))[:3])]
        for b in self.bounded:
            samples.append(dict(bounded=b['name'], samples=b['samples']))
        cov = dict(
            obligations=n, discharged=disch, by_backend=by, solver_s=round(st, 2), obligation_kinds=kinds,
            checker_cmd=f'./vv check {self.prop} --tier {self.tier}',
            trusted_base=self.trusted + self.eng.assumed,
            functions_under_contract=self.eng.fninfo,
            vacuity=self.vacuity,
            samples=samples,
            bounded=self.bounded,
            evaluations=sum(b['evaluations'] for b in self.bounded) + n,
            distinct_nontrivial=sum(b['distinct_nontrivial'] for b in self.bounded) + n,
            rule='obligations generated from the current source (each distinct by name) plus the bounded cases listed under "bounded"',
            explanation=self.extra.get('explanation', ''),
            undecided=self.undecided, notes=self.notes,
            known_findings=[f"{k['what']}" for k, _ in self.known_hits],
        )
        if self.tier == 'thorough':
            cov['cvc5_cross_check'] = cv
        cov.update({k: v for k, v in self.extra.items() if k != 'explanation'})
        ev = dict(property_id=self.prop, tier=self.tier, seed=self.seed, level=self.level, coverage=cov,
                  assumptions=self.assumptions + self.eng.assumed, wall_s=round(time.time() - self.t0, 2),
                  violations=len(self.violations))
        if crashed:
            ev['coverage']['crash'] = crashed
        json.dump(ev, open(os.path.join(self.outroot, 'evidence', self.prop + '.json'), 'w'), indent=1, default=str)
        for info in self.eng.fninfo:
            print(f"  fn {info['name']}: obligations {info['obligations']} paths {info['paths']}")
        print(f'  obligations {n} discharged {disch} backends {by} solver_s {st:.1f} bounded_cases '
              f'{sum(b["evaluations"] for b in self.bounded)}')
        seen = set()
        for k, what in self.known_hits:
            if k['what'] not in seen:
                seen.add(k['what'])
                print(f"KNOWN-FINDING: property={self.prop} {k['what']}")
        for u in self.undecided:
            print('  UNDECIDED:', u)
        for v in self.violations:
            rel = os.path.relpath(v['replay'], VERIF)
            print(f"VIOLATION property={self.prop} replay={rel}" + ('' if v['reproduced'] else ' no-failing-input-found'))
            print('   ', v['what'])
        print(f'RESULT {self.prop} exit={code} wall={time.time() - self.t0:.1f}s')
        return code


_PENDING, _REPO = [], '/repo'


class WorkerDied(Exception):
    """a bounded stand-in lost a worker process; the violation / undecided entry is already recorded"""


def _isolated(rep, o, model, timeout=900):
    """replayers call the real (numba-compiled, possibly parallel) code: run them in a forked child so that the parent never
    initialises numba's threading layer (a later fork pool would deadlock) and a crash or hang of the replay cannot take the check down"""
    import multiprocessing as mp
    rd, wr = mp.get_context('fork').Pipe(duplex=False)

    def child():
        try:
            res = rep(o, model)
            wr.send(('ok', (bool(res[0]), None if res[1] is None else str(res[1])[:4000])))
        except BaseException as ex:      # noqa
            wr.send(('err', repr(ex) + '\n' + traceback.format_exc()[-1500:]))
        finally:
            wr.close()
            os._exit(0)
    pid = os.fork()
    if pid == 0:
        rd.close()
        child()
    wr.close()
    try:
        if rd.poll(timeout):
            kind, payload = rd.recv()
        else:
            kind, payload = 'err', f'replay did not finish within {timeout} s'
    except EOFError:
        kind, payload = 'err', 'replay process died without an answer'
    finally:
        try:
            os.kill(pid, 9)
        except ProcessLookupError:
            pass
        try:
            os.waitpid(pid, 0)
        except ChildProcessError:
            pass
        rd.close()
    if kind == 'ok':
        return payload
    raise RuntimeError(payload)


def _gen_worker(k):
    """child process: verify one spec in a fresh engine and z3 context; return obligations as SMT-LIB text"""
    spec = _PENDING[k]
    eng = E.Engine(_REPO)
    try:
        eng.verify(spec)
    except (E.Unsupported, E.ContractError) as ex:
        return dict(error=f'{type(ex).__name__}: {ex}')
    except z3.Z3Exception as ex:
        return dict(error=f'Z3Exception: {ex}')
    except Exception:
        return dict(error='CRASH ' + traceback.format_exc()[-1500:])
    obls = []
    for o in eng.obls:
        obls.append(dict(name=o.name, kind=o.kind, src=o.src, lineno=o.lineno, fn=o.fn, result=o.result,
                         smt2=None if o.result is not None else solve.to_smt2(o.pc, o.goal),
                         goal=str(o.goal)[:2000], hyps=[str(f)[:400] for f in o.pc[-25:]], nhyp=len(o.pc)))
    s = z3.Solver()
    s.set('timeout', 10000)
    s.add(*[f for f in eng.requires_pc if not E.has_quant(f)])
    return dict(obls=obls, info=eng.fninfo[-1], assumed=eng.assumed, vacuity=str(s.check()))
