"""command line: check / replay"""
import argparse
import importlib
import os
import sys
import traceback

from .run import Run, WorkerDied


def main():
    ap = argparse.ArgumentParser()
    sub = ap.add_subparsers(dest='cmd')
    c = sub.add_parser('check')
    c.add_argument('prop')
    c.add_argument('--tier', default=os.environ.get('VERIF_TIER', 'quick'))
    r = sub.add_parser('replay')
    r.add_argument('path')
    a = ap.parse_args()
    repo = os.environ.get('VV_REPO', '/repo')
    seed = int(os.environ.get('VERIF_SEED', '0') or 0)
    if a.cmd == 'check':
        run = Run(a.prop, a.tier, seed, repo)
        try:
            mod = importlib.import_module('contracts.' + a.prop)
            try:
                mod.check(run)
            except WorkerDied:
                pass
            code = run.finish()
        except Exception:
            tb = traceback.format_exc()
            print(tb)
            code = run.finish(crashed=tb[-1500:])
        sys.exit(code)
    if a.cmd == 'replay':
        import json
        rec = json.load(open(a.path))
        mod = importlib.import_module('contracts.' + rec['property'])
        ok = mod.replay_file(rec, repo)
        print('REPRODUCED' if ok else 'not reproduced')
        sys.exit(1 if ok else 0)
    ap.print_help()
    sys.exit(3)


if __name__ == '__main__':
    main()
