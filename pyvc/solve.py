"""Discharging obligations: 16-worker process pool, z3 first (hypothesis slicing), cvc5 for unknowns /
as an independent second opinion in the thorough tier."""
import multiprocessing as mp
import os
import subprocess
import tempfile
import time

import z3

from .engine import has_quant


def to_smt2(pc, goal):
    s = z3.Solver()
    for f in pc:
        s.add(f)
    s.add(z3.Not(goal))
    return s.to_smt2()


def _val(v):
    if z3.is_int_value(v):
        return v.as_long()
    if z3.is_rational_value(v):
        return str(v.as_fraction())
    if z3.is_algebraic_value(v):
        return 'alg:' + str(v.approx(12))
    if z3.is_bv_value(v):
        return v.as_long()
    if z3.is_true(v):
        return True
    if z3.is_false(v):
        return False
    return str(v)


ARR_PROBE = 12


def _model_dict(m):
    """scalars by name; arrays probed at indices 0..ARR_PROBE-1 (nested lists, up to 3 dimensions)"""
    out = {}
    for d in m.decls():
        try:
            if d.arity() != 0:
                continue
            c = d()
            if z3.is_array(c):
                def probe(t, depth):
                    if not z3.is_array(t):
                        return _val(m.eval(t, model_completion=True))
                    n = ARR_PROBE if depth == 0 else (ARR_PROBE if depth == 1 else 4)
                    return [probe(z3.Select(t, k), depth + 1) for k in range(n)]
                srt = c.sort()
                dims = 0
                while isinstance(srt, z3.ArraySortRef):
                    dims += 1
                    srt = srt.range()
                if dims <= 2:
                    out[d.name()] = probe(c, 0)
            else:
                out[d.name()] = _val(m.eval(c, model_completion=True))
        except Exception:
            pass
    return out


def _eval_queries(m, assertions_ctx, queries):
    return {}


def is_nonlinear(f):
    """contains a product of two non-numeral terms, a division by a non-numeral, or a power"""
    seen = set()
    stack = [f]
    while stack:
        x = stack.pop()
        i = x.get_id()
        if i in seen:
            continue
        seen.add(i)
        if z3.is_app(x):
            k = x.decl().kind()
            if k == z3.Z3_OP_MUL:
                if sum(1 for c in x.children() if not (z3.is_int_value(c) or z3.is_rational_value(c))) >= 2:
                    return True
            elif k in (z3.Z3_OP_DIV, z3.Z3_OP_IDIV, z3.Z3_OP_MOD, z3.Z3_OP_REM):
                d = x.arg(1)
                if not (z3.is_int_value(d) or z3.is_rational_value(d)):
                    return True
            elif k == z3.Z3_OP_POWER:
                return True
        if z3.is_quantifier(x):
            stack.append(x.body())
        else:
            stack.extend(x.children())
    return False


def symbols(f):
    """names of the uninterpreted constants and functions occurring in f"""
    out = set()
    seen = set()
    stack = [f]
    while stack:
        x = stack.pop()
        i = x.get_id()
        if i in seen:
            continue
        seen.add(i)
        if z3.is_quantifier(x):
            stack.append(x.body())
            continue
        if z3.is_app(x):
            if x.decl().kind() == z3.Z3_OP_UNINTERPRETED:
                out.add(x.decl().name())
            stack.extend(x.children())
    return out


def fun_symbols(f):
    """names of uninterpreted functions of arity > 0 applied in f"""
    out = set()
    seen = set()
    stack = [f]
    while stack:
        x = stack.pop()
        i = x.get_id()
        if i in seen:
            continue
        seen.add(i)
        if z3.is_quantifier(x):
            stack.append(x.body())
            continue
        if z3.is_app(x):
            if x.decl().kind() == z3.Z3_OP_UNINTERPRETED and x.num_args() > 0:
                out.add(x.decl().name())
            stack.extend(x.children())
    return out


def top_fun_symbols(f):
    """like fun_symbols but without descending into the arguments of uninterpreted applications"""
    out = set()
    seen = set()
    stack = [f]
    while stack:
        x = stack.pop()
        i = x.get_id()
        if i in seen:
            continue
        seen.add(i)
        if z3.is_quantifier(x):
            stack.append(x.body())
            continue
        if z3.is_app(x):
            if x.decl().kind() == z3.Z3_OP_UNINTERPRETED and x.num_args() > 0:
                out.add(x.decl().name())
                continue
            stack.extend(x.children())
    return out


def def_head(f):
    """F for a hypothesis of the form F(args) == rhs with F uninterpreted of arity > 0, else None"""
    if z3.is_eq(f):
        a = f.arg(0)
        if z3.is_app(a) and a.decl().kind() == z3.Z3_OP_UNINTERPRETED and a.num_args() > 0:
            return a.decl().name()
    return None


_BV2INT_NAMES = ('bv2int', 'ubv_to_int', 'sbv_to_int', 'bv2nat')


def abstract_bv2int(fs):
    """sound generalisation: every bit-vector -> integer conversion becomes a fresh integer constant (one per distinct
    term).  unsat of the abstraction implies unsat of the original; sat means nothing."""
    cache = {}
    memo = {}

    def walk(t):
        i = t.get_id()
        if i in memo:
            return memo[i]
        if z3.is_app(t) and t.num_args() > 0:
            if t.decl().name() in _BV2INT_NAMES:
                r = cache.setdefault(i, z3.Int('bvint!%d' % len(cache)))
            else:
                ch = [walk(c) for c in t.children()]
                if any(not a.eq(b) for a, b in zip(ch, t.children())):
                    r = t.decl()(*ch)
                else:
                    r = t
        else:
            r = t
        memo[i] = r
        return r
    return [walk(f) for f in fs], len(cache)


def abstract_int_atoms(fs):
    """sound generalisation: every atom over integer terms (=, <=, <, ...) becomes a fresh Boolean (one per distinct atom);
    what remains is Boolean structure + real arithmetic, which nlsat/the default solver decide quickly"""
    cache = {}
    memo = {}

    def walk(t):
        i = t.get_id()
        if i in memo:
            return memo[i]
        r = t
        if z3.is_app(t) and t.num_args() > 0:
            if z3.is_bool(t) and t.decl().kind() in (z3.Z3_OP_EQ, z3.Z3_OP_LE, z3.Z3_OP_LT, z3.Z3_OP_GE, z3.Z3_OP_GT, z3.Z3_OP_DISTINCT) \
                    and all(z3.is_int(c) for c in t.children()):
                r = cache.setdefault(i, z3.Bool('iatom!%d' % len(cache)))
            else:
                ch = [walk(c) for c in t.children()]
                if any(not a.eq(b) for a, b in zip(ch, t.children())):
                    r = t.decl()(*ch)
        memo[i] = r
        return r
    return [walk(f) for f in fs], len(cache)


def abstract_uf_apps(fs):
    """sound generalisation: every application of an uninterpreted function with an arithmetic result becomes a
    fresh constant (one per distinct term): loses congruence only"""
    cache = {}
    memo = {}

    def walk(t):
        i = t.get_id()
        if i in memo:
            return memo[i]
        r = t
        if z3.is_app(t) and t.num_args() > 0:
            if t.decl().kind() == z3.Z3_OP_UNINTERPRETED and (z3.is_real(t) or z3.is_int(t)):
                r = cache.setdefault(i, z3.Const('uf!%d' % len(cache), t.sort()))
            else:
                ch = [walk(c) for c in t.children()]
                if any(not a.eq(b) for a, b in zip(ch, t.children())):
                    r = t.decl()(*ch)
        memo[i] = r
        return r
    return [walk(f) for f in fs]


import json  # noqa: E402
import select  # noqa: E402
import signal  # noqa: E402


def timed_check(s, ms, want_model=False):
    """z3's own timeout is not always honoured inside the non-linear engine, so every check runs in a forked
    child with a hard deadline (the child inherits the parsed formulas; only the verdict/model comes back)"""
    s.set('timeout', int(ms))
    rd, wr = os.pipe()
    pid = os.fork()
    if pid == 0:
        try:
            os.close(rd)
            r = s.check()
            out = dict(r=str(r))
            if r == z3.sat and want_model:
                out['model'] = _model_dict(s.model())
            if r == z3.unknown:
                out['why'] = s.reason_unknown()
            os.write(wr, json.dumps(out, default=str).encode())
        except BaseException as ex:      # noqa
            try:
                os.write(wr, json.dumps(dict(r='unknown', why=repr(ex))).encode())
            except Exception:
                pass
        finally:
            os._exit(0)
    os.close(wr)
    deadline = time.time() + ms / 1000.0 + 2.0
    buf = b''
    try:
        while True:
            left = deadline - time.time()
            if left <= 0:
                break
            ready, _, _ = select.select([rd], [], [], left)
            if not ready:
                break
            chunk = os.read(rd, 1 << 20)
            if not chunk:
                break
            buf += chunk
    finally:
        os.close(rd)
        try:
            os.kill(pid, signal.SIGKILL)
        except ProcessLookupError:
            pass
        try:
            os.waitpid(pid, 0)
        except ChildProcessError:
            pass
    timed_check.last = {}
    if not buf:
        timed_check.last = dict(why='hard deadline')
        return z3.unknown
    try:
        out = json.loads(buf.decode())
    except Exception:
        return z3.unknown
    timed_check.last = out
    return {'sat': z3.sat, 'unsat': z3.unsat}.get(out.get('r'), z3.unknown)


timed_check.last = {}


def solve_one(task):
    """task = dict(name, smt2, timeout_ms, seed) -> dict(status, backend, time, model|candidate)

    A sequence of attempts, each a *sound weakening* of the obligation (fewer hypotheses, or terms generalised to
    fresh symbols), so `unsat` from any of them discharges the obligation; only the full query may answer `sat`."""
    t0 = time.time()
    name, smt2, timeout, seed = task['name'], task['smt2'], task['timeout_ms'], task.get('seed', 0)
    try:
        fs = list(z3.parse_smt2_string(smt2))
    except Exception as ex:
        return dict(name=name, status='error', backend='z3', time=time.time() - t0, detail=repr(ex))
    hyps, goal = fs[:-1], fs[-1]          # goal is already negated
    quant = [has_quant(f) for f in hyps]
    nl = [(not q) and is_nonlinear(f) for f, q in zip(hyps, quant)]
    qf = [f for f, q in zip(hyps, quant) if not q]
    lin = [f for f, n in zip(hyps, nl) if not n]
    linqf = [f for f, q, n in zip(hyps, quant, nl) if not q and not n]
    gsyms, gfuns = symbols(goal), fun_symbols(goal)
    relA = [f for f, n in zip(hyps, nl) if (not n) or (symbols(f) & gsyms)]
    relB = [f for f, n in zip(hyps, nl) if (not n) or (def_head(f) in gfuns)]
    tfuns = top_fun_symbols(goal)
    F1 = set(tfuns)
    for f in hyps:
        if def_head(f) in tfuns:
            F1 |= top_fun_symbols(f)
    relF = [f for f, q, n in zip(hyps, quant, nl) if not q and (top_fun_symbols(f) & F1) and ((not n) or def_head(f) in tfuns)]
    qf_ = lambda hs: [f for f in hs if not has_quant(f)]      # noqa: E731
    cand = [None]
    why = [None]

    def plain(hs, ms, label, model=False, sd=seed):
        s = z3.Solver()
        s.set('random_seed', sd)
        s.add(*hs)
        s.add(goal)
        r = timed_check(s, ms, want_model=model)
        why[0] = timed_check.last.get('why')
        if r == z3.unsat:
            return dict(name=name, status='unsat', backend=label, time=time.time() - t0)
        if r == z3.sat and model:
            if label == 'z3':
                return dict(name=name, status='sat', backend='z3', time=time.time() - t0, model=timed_check.last.get('model'))
            if cand[0] is None:
                cand[0] = timed_check.last.get('model')
        return None

    def abstracted(hs, ms, label, bv=False, atoms=False):
        try:
            afs = hs + [goal]
            n = 0
            if bv:
                afs, n = abstract_bv2int(afs)
            if atoms:
                afs, n2 = abstract_int_atoms(afs)
                afs = abstract_uf_apps(afs)
                n += n2
        except Exception:
            return None
        if not n:
            return None
        s = z3.Solver()
        s.add(*afs)
        if timed_check(s, ms) == z3.unsat:
            return dict(name=name, status='unsat', backend=label, time=time.time() - t0)
        return None

    stages = []
    has_q = len(qf) < len(hyps)
    has_nl = len(lin) < len(hyps)
    goal_nl = is_nonlinear(goal)
    if has_q:
        stages.append(lambda: plain(qf, min(timeout, 3000), 'z3-qfslice', model=True))
    if 'bv_to_int' in smt2 or 'bv2int' in smt2 or 'bv2nat' in smt2:
        stages.append(lambda: abstracted(qf, min(timeout, 5000), 'z3-qfslice-abs', bv=True))
    if has_nl and len(relA) < len(hyps):
        stages.append(lambda: plain(qf_(relA), 4000, 'z3-relslice'))
    if goal_nl and F1 and len(relF) < len(hyps):
        stages.append(lambda: plain(relF, 4000, 'z3-funslice'))
        stages.append(lambda: abstracted(relF, 12000, 'z3-funslice-boolabs', atoms=True))
    if has_nl:
        stages.append(lambda: plain(linqf, 2000, 'z3-linslice'))
    stages.append(lambda: plain(hyps, min(timeout, 6000), 'z3', model=True))
    if has_nl:
        if has_q:
            stages.append(lambda: plain(lin, min(timeout, 8000), 'z3-linslice'))
        if len(relB) < len(hyps):
            stages.append(lambda: plain(qf_(relB), min(timeout, 8000), 'z3-defslice'))
            stages.append(lambda: abstracted(qf_(relB), 10000, 'z3-defslice-boolabs', atoms=True))
        if len(relA) < len(hyps):
            stages.append(lambda: plain(qf_(relA), min(timeout, 10000), 'z3-relslice'))
            stages.append(lambda: plain(relA, min(timeout, 10000), 'z3-relslice'))
    stages.append(lambda: abstracted(qf, min(timeout, 5000), 'z3-qfslice-abs', bv=True))
    stages.append(lambda: plain(hyps, timeout, 'z3', model=True, sd=seed + 17))
    if has_q:
        stages.append(lambda: plain(qf, timeout, 'z3-qfslice', model=True, sd=seed + 5))
        # portfolio: quantifier instantiation depends on the order in which hypotheses are asserted; the same formulas in other
        # (deterministic) orders, with other seeds
        import random as _random
        for sd_ in (1, 2, 3):
            def shuffled(sd_=sd_):
                hs = list(hyps)
                _random.Random(1000 * sd_ + seed).shuffle(hs)
                return plain(hs, min(timeout, 12000), 'z3-reordered', sd=seed + 100 * sd_)
            stages.append(shuffled)
    trace = []
    for k, st in enumerate(stages):
        t1 = time.time()
        r = st()
        trace.append((k, round(time.time() - t1, 2), None if r is None else r.get('backend')))
        if r is not None:
            r['trace'] = trace
            return r
    if task.get('use_cvc5', True):
        if run_cvc5(smt2, timeout) == 'unsat':
            return dict(name=name, status='unsat', backend='cvc5', time=time.time() - t0)
    return dict(name=name, status='unknown', backend='z3+cvc5', time=time.time() - t0, candidate=cand[0], detail=why[0], trace=trace)


def run_cvc5(smt2, timeout_ms):
    """cvc5 CLI on the SMT-LIB text exported by z3; anything but a clean 'unsat' counts as no answer"""
    txt = smt2
    if '(set-logic' not in txt:
        txt = '(set-logic ALL)\n' + txt
    try:
        with tempfile.NamedTemporaryFile('w', suffix='.smt2', delete=False) as f:
            f.write(txt)
            path = f.name
        p = subprocess.run(['/usr/bin/cvc5', '--tlimit=%d' % timeout_ms, '--arrays-exp', path],
                           capture_output=True, text=True, timeout=timeout_ms / 1000.0 + 5)
        out = p.stdout.strip().splitlines()
        os.unlink(path)
        if out and out[0].strip() == 'unsat':
            return 'unsat'
        if out and out[0].strip() == 'sat':
            return 'sat'
        return 'unknown'
    except Exception:
        return 'unknown'


def cvc5_one(task):
    t0 = time.time()
    r = run_cvc5(task['smt2'], task['timeout_ms'])
    return dict(name=task['name'], status=r, backend='cvc5', time=time.time() - t0)


def discharge(obls, timeout_ms=30000, seed=0, workers=None, queries=None, cross_cvc5=False):
    """fills o.result for every obligation not already decided by the simplifier"""
    tasks = []
    for o in obls:
        if o.result is not None:
            continue
        tasks.append(dict(name=o.name, smt2=(getattr(o, 'smt2', None) or to_smt2(o.pc, o.goal)), timeout_ms=timeout_ms, seed=seed,
                          queries=(queries(o) if queries else [])))
    byname = {o.name: o for o in obls}
    if not tasks:
        return
    workers = workers or min(16, os.cpu_count() or 1)
    ctx = mp.get_context('fork')
    with ctx.Pool(workers, maxtasksperchild=50) as pool:
        for r in pool.imap_unordered(solve_one, tasks, chunksize=1):
            byname[r['name']].result = r
        if cross_cvc5:
            # independent re-check on cvc5: 20 s per obligation, at most ~1500 obligations (every k-th, deterministic)
            step = max(1, len(tasks) // 1500)
            sample = [dict(t, timeout_ms=min(t['timeout_ms'], 20000)) for t in tasks[::step]]
            for r in pool.imap_unordered(cvc5_one, sample, chunksize=1):
                byname[r['name']].result['cvc5'] = r['status']
                byname[r['name']].result['cvc5_time'] = r['time']
