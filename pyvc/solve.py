"""Discharging obligations: 16-worker process pool, z3 first (hypothesis slicing), cvc5 for unknowns /
as an independent second opinion in the thorough tier."""
import multiprocessing as mp
import os
import subprocess
import tempfile
import time

import z3

from .engine import has_quant


def to_smt2(pc, goal):
    s = z3.Solver()
    for f in pc:
        s.add(f)
    s.add(z3.Not(goal))
    return s.to_smt2()


def _val(v):
    if z3.is_int_value(v):
        return v.as_long()
    if z3.is_rational_value(v):
        return str(v.as_fraction())
    if z3.is_algebraic_value(v):
        return 'alg:' + str(v.approx(12))
    if z3.is_bv_value(v):
        return v.as_long()
    if z3.is_true(v):
        return True
    if z3.is_false(v):
        return False
    return str(v)


ARR_PROBE = 12


def _model_dict(m):
    """scalars by name; arrays probed at indices 0..ARR_PROBE-1 (nested lists, up to 3 dimensions)"""
    out = {}
    for d in m.decls():
        try:
            if d.arity() != 0:
                continue
            c = d()
            if z3.is_array(c):
                def probe(t, depth):
                    if not z3.is_array(t):
                        return _val(m.eval(t, model_completion=True))
                    n = ARR_PROBE if depth == 0 else (ARR_PROBE if depth == 1 else 4)
                    return [probe(z3.Select(t, k), depth + 1) for k in range(n)]
                srt = c.sort()
                dims = 0
                while isinstance(srt, z3.ArraySortRef):
                    dims += 1
                    srt = srt.range()
                if dims <= 2:
                    out[d.name()] = probe(c, 0)
            else:
                out[d.name()] = _val(m.eval(c, model_completion=True))
        except Exception:
            pass
    return out


def _eval_queries(m, assertions_ctx, queries):
    return {}


_BV2INT_NAMES = ('bv2int', 'ubv_to_int', 'sbv_to_int', 'bv2nat')


def abstract_bv2int(fs):
    """sound generalisation: every bit-vector -> integer conversion becomes a fresh integer constant (one per distinct
    term).  unsat of the abstraction implies unsat of the original; sat means nothing."""
    cache = {}
    memo = {}

    def walk(t):
        i = t.get_id()
        if i in memo:
            return memo[i]
        if z3.is_app(t) and t.num_args() > 0:
            if t.decl().name() in _BV2INT_NAMES:
                r = cache.setdefault(i, z3.Int('bvint!%d' % len(cache)))
            else:
                ch = [walk(c) for c in t.children()]
                if any(not a.eq(b) for a, b in zip(ch, t.children())):
                    r = t.decl()(*ch)
                else:
                    r = t
        else:
            r = t
        memo[i] = r
        return r
    return [walk(f) for f in fs], len(cache)


def solve_one(task):
    """task = dict(name, smt2, timeout_ms, seed, queries) -> dict(status, backend, time, model)"""
    t0 = time.time()
    name, smt2, timeout, seed = task['name'], task['smt2'], task['timeout_ms'], task.get('seed', 0)
    try:
        fs = z3.parse_smt2_string(smt2)
    except Exception as ex:
        return dict(name=name, status='error', backend='z3', time=time.time() - t0, detail=repr(ex))
    qf = [f for f in fs if not has_quant(f)]
    cand = None
    status = 'unknown'
    # (i) quantifier-free slice
    if len(qf) < len(fs):
        s = z3.Solver()
        s.set('timeout', min(timeout, 3000))
        s.set('random_seed', seed)
        s.add(*qf)
        r = s.check()
        if r == z3.unsat:
            return dict(name=name, status='unsat', backend='z3-qfslice', time=time.time() - t0)
        if r == z3.sat:
            cand = _model_dict(s.model())
    # (i') quantifier-free slice with bit-vector -> int conversions abstracted (pure real/int reasoning)
    try:
        afs, nabs = abstract_bv2int(qf)
    except Exception:
        afs, nabs = None, 0
    if nabs:
        s = z3.Solver()
        s.set('timeout', min(timeout, 5000))
        s.add(*afs)
        if s.check() == z3.unsat:
            return dict(name=name, status='unsat', backend='z3-qfslice-abs', time=time.time() - t0)
    # (ii) full query
    for tactic_seed in (seed, seed + 17):
        s = z3.Solver()
        s.set('timeout', timeout)
        s.set('random_seed', tactic_seed)
        s.add(*fs)
        r = s.check()
        if r == z3.unsat:
            return dict(name=name, status='unsat', backend='z3', time=time.time() - t0)
        if r == z3.sat:
            m = s.model()
            model = _model_dict(m)
            return dict(name=name, status='sat', backend='z3', time=time.time() - t0, model=model)
        if time.time() - t0 > timeout / 1000.0:
            break
    # (ii') a longer try on the quantifier-free slice
    if len(qf) < len(fs) and cand is None:
        s2 = z3.Solver()
        s2.set('timeout', timeout)
        s2.set('random_seed', seed + 5)
        s2.add(*qf)
        r = s2.check()
        if r == z3.unsat:
            return dict(name=name, status='unsat', backend='z3-qfslice', time=time.time() - t0)
        if r == z3.sat:
            cand = _model_dict(s2.model())
    # (iii) cvc5
    if task.get('use_cvc5', True):
        r = run_cvc5(smt2, timeout)
        if r == 'unsat':
            return dict(name=name, status='unsat', backend='cvc5', time=time.time() - t0)
    return dict(name=name, status='unknown', backend='z3+cvc5', time=time.time() - t0, candidate=cand,
                detail=s.reason_unknown())


def run_cvc5(smt2, timeout_ms):
    """cvc5 CLI on the SMT-LIB text exported by z3; anything but a clean 'unsat' counts as no answer"""
    txt = smt2
    if '(set-logic' not in txt:
        txt = '(set-logic ALL)\n' + txt
    try:
        with tempfile.NamedTemporaryFile('w', suffix='.smt2', delete=False) as f:
            f.write(txt)
            path = f.name
        p = subprocess.run(['/usr/bin/cvc5', '--tlimit=%d' % timeout_ms, '--arrays-exp', path],
                           capture_output=True, text=True, timeout=timeout_ms / 1000.0 + 5)
        out = p.stdout.strip().splitlines()
        os.unlink(path)
        if out and out[0].strip() == 'unsat':
            return 'unsat'
        if out and out[0].strip() == 'sat':
            return 'sat'
        return 'unknown'
    except Exception:
        return 'unknown'


def cvc5_one(task):
    t0 = time.time()
    r = run_cvc5(task['smt2'], task['timeout_ms'])
    return dict(name=task['name'], status=r, backend='cvc5', time=time.time() - t0)


def discharge(obls, timeout_ms=30000, seed=0, workers=None, queries=None, cross_cvc5=False):
    """fills o.result for every obligation not already decided by the simplifier"""
    tasks = []
    for o in obls:
        if o.result is not None:
            continue
        tasks.append(dict(name=o.name, smt2=to_smt2(o.pc, o.goal), timeout_ms=timeout_ms, seed=seed,
                          queries=(queries(o) if queries else [])))
    byname = {o.name: o for o in obls}
    if not tasks:
        return
    workers = workers or min(16, os.cpu_count() or 1)
    ctx = mp.get_context('fork')
    with ctx.Pool(workers, maxtasksperchild=50) as pool:
        for r in pool.imap_unordered(solve_one, tasks, chunksize=1):
            byname[r['name']].result = r
        if cross_cvc5:
            for r in pool.imap_unordered(cvc5_one, tasks, chunksize=1):
                byname[r['name']].result['cvc5'] = r['status']
                byname[r['name']].result['cvc5_time'] = r['time']
