"""E1: AST -> verification-condition engine (see DESIGN.md section 2.1).

Concrete structure, symbolic numbers.  The function ASTs are read from the repository on every run.
Anything outside the supported subset raises Unsupported, which the driver maps to exit 2 (undecided).
"""
import ast
import fractions
import hashlib
import itertools
import os
import re

import z3

# --------------------------------------------------------------------------------------------------
# exceptions


class Unsupported(Exception):
    """construct outside the verified subset -> undecided, never a verdict"""


class ContractError(Exception):
    """sidecar contract no longer matches the source -> undecided"""


# --------------------------------------------------------------------------------------------------
# types and values

BVT = {
    'i8': (8, True), 'i16': (16, True), 'i32': (32, True), 'i64': (64, True),
    'u8': (8, False), 'u16': (16, False), 'u32': (32, False), 'u64': (64, False),
}


def is_bv(ty):
    return ty in BVT


def sort_of(ty):
    if ty == 'int':
        return z3.IntSort()
    if ty == 'real':
        return z3.RealSort()
    if ty == 'bool':
        return z3.BoolSort()
    if ty in BVT:
        return z3.BitVecSort(BVT[ty][0])
    raise Unsupported('sort of ' + str(ty))


class SV:
    """symbolic scalar: z3 term + type tag ('bool','int','real' or a BVT key)"""
    __slots__ = ('t', 'ty')

    def __init__(self, t, ty):
        self.t = t
        self.ty = ty

    def __repr__(self):
        return f'SV({self.t}:{self.ty})'

    def __bool__(self):
        raise Unsupported('python truth value of a symbolic term ' + str(self.t))


class DT:
    """a dtype / scalar-type object (np.float32, out.dtype.type, ...). tag is an SV type tag;
    bits/signed describe the numpy integer type when tag == 'int' (INT mode) for fits obligations"""

    def __init__(self, tag, np_name, bits=None, signed=None):
        self.tag = tag
        self.np_name = np_name
        self.bits = bits
        self.signed = signed

    @property
    def itemsize(self):
        return {'float32': 4, 'float64': 8, 'bool': 1}.get(self.np_name, (self.bits or 64) // 8)

    def __repr__(self):
        return f'DT({self.np_name})'

    def __eq__(self, o):
        return isinstance(o, DT) and o.np_name == self.np_name

    def __hash__(self):
        return hash(self.np_name)


NP_INT = {'int8': (8, True), 'int16': (16, True), 'int32': (32, True), 'int64': (64, True),
          'uint8': (8, False), 'uint16': (16, False), 'uint32': (32, False), 'uint64': (64, False)}


def np_dtype(name, mode):
    if name in ('float32', 'float64', 'float_', 'double'):
        return DT('real', name)
    if name in ('bool_', 'bool8', 'bool'):
        return DT('bool', 'bool')
    if name in ('complex64', 'complex128'):
        # value abstraction: complex numbers are an uninterpreted real-sorted value (only indices / footprints are checked)
        return DT('real', name)
    if name in NP_INT:
        b, s = NP_INT[name]
        if mode == 'bv':
            return DT(('i' if s else 'u') + str(b), name, b, s)
        return DT('int', name, b, s)
    raise Unsupported('dtype ' + name)


class Arr:
    """array view: base id in the heap + per-base-axis spec ('i', idx) fixed index or ('r', off, len) range"""

    def __init__(self, base, axes, ety, dt=None, readonly=False):
        self.base = base
        self.axes = axes
        self.ety = ety
        self.dt = dt
        self.readonly = readonly

    @property
    def raxes(self):
        return [a for a in self.axes if a[0] == 'r']

    @property
    def ndim(self):
        return len(self.raxes)

    @property
    def shape(self):
        return [a[2] for a in self.raxes]

    def __repr__(self):
        return f'Arr({self.base},{self.axes})'


class FnVal:
    def __init__(self, node, env, modinfo, qualname):
        self.node = node
        self.env = env
        self.mod = modinfo
        self.qualname = qualname


class Builtin:
    def __init__(self, name):
        self.name = name

    def __repr__(self):
        return f'Builtin({self.name})'


class ModRef:
    def __init__(self, name):
        self.name = name


class Bound:
    """bound method-like: (kind, self value)"""

    def __init__(self, name, obj):
        self.name = name
        self.obj = obj


class RangeVal:
    def __init__(self, start, stop, step, parallel=False):
        self.start, self.stop, self.step, self.parallel = start, stop, step, parallel


class ChunkSeq:
    """a finite sequence of consecutive read chunks tiling a byte stream: chunk k = stream[cut(k) : cut(k+1)], 0 <= k < n"""

    def __init__(self, stream, cut, n):
        self.stream, self.cut, self.n = stream, cut, n


BYTES_DT = None      # set below (DT of python bytes / memoryview objects)


def is_bytes(a):
    return isinstance(a, Arr) and a.dt is not None and a.dt.np_name == 'bytes' and a.ndim == 1


class TupleSV(tuple):
    pass


def I(x):
    """python int / z3 int -> z3 int term"""
    if isinstance(x, bool):
        return z3.IntVal(int(x))
    if isinstance(x, int):
        return z3.IntVal(x)
    if isinstance(x, SV):
        if x.ty == 'int':
            return x.t
        if x.ty == 'bool':
            return z3.If(x.t, z3.IntVal(1), z3.IntVal(0))
        if is_bv(x.ty):
            return z3.BV2Int(x.t, BVT[x.ty][1])
        raise Unsupported(f'integer expected, got {x.ty}')
    if z3.is_expr(x):
        return x
    raise Unsupported('integer expected, got ' + repr(x))


def realval(x):
    """floats are reals: a float constant denotes the decimal number it is written as (0.0005 is 1/2000, not the
    nearest binary64), i.e. the shortest decimal that round-trips"""
    if isinstance(x, float):
        return z3.RealVal(str(fractions.Fraction(repr(x))))
    return z3.RealVal(str(fractions.Fraction(x)))


def conc_int(t):
    """python int if the z3 term is a numeral, else None"""
    if isinstance(t, int):
        return t
    if z3.is_int_value(t):
        return t.as_long()
    return None


def simp(t):
    return z3.simplify(t)


# --------------------------------------------------------------------------------------------------
# state


class St:
    def __init__(self, env, heap, pc):
        self.env = env
        self.heap = heap
        self.pc = pc
        self.flow = None      # None | 'ret' | 'raise' | 'break' | 'continue'
        self.val = None       # return value / exception name
        self.trace = []       # (tag, payload) e.g. external effects
        self.fn_depth = 0

    def fork(self):
        s = St(dict(self.env), dict(self.heap), list(self.pc))
        s.flow, s.val, s.trace, s.fn_depth = self.flow, self.val, list(self.trace), self.fn_depth
        return s


class Obl:
    def __init__(self, name, kind, pc, goal, src, lineno, fn, extra=None):
        self.name, self.kind, self.pc, self.goal = name, kind, pc, goal
        self.src, self.lineno, self.fn = src, lineno, fn
        self.extra = extra or {}
        self.result = None


def has_quant(f):
    seen = set()
    stack = [f]
    while stack:
        x = stack.pop()
        i = x.get_id()
        if i in seen:
            continue
        seen.add(i)
        if z3.is_quantifier(x):
            return True
        stack.extend(x.children())
    return False


# --------------------------------------------------------------------------------------------------
# specs


class LoopSpec:
    def __init__(self, invariant=(), variant=None, modifies=(), writes=None, reads_own=True, asserts=(),
                 exit_asserts=(), unroll=False, body_asserts=None, no_havoc=(), index=None, views=(), kinds=None):
        self.invariant = list(invariant)
        self.index = index            # name of the hidden position index of a loop over a chunk sequence
        self.views = list(views)      # 1-D view variables re-bound in the loop: havoc = same base, fresh offset / length
        self.kinds = kinds or {}      # structural modes {name: ['none', 'int[:]']}: the loop head is verified once per kind
        self.variant = variant
        self.modifies = list(modifies)
        self.writes = writes          # prange footprints: {array name: (idxvars, predicate)}
        self.reads_own = reads_own
        self.asserts = list(asserts)  # proved-then-assumed hints at the end of the body (before inv check)
        self.exit_asserts = list(exit_asserts)
        self.unroll = unroll
        self.body_asserts = body_asserts or {}   # {stmt source prefix: [hints]} proved-then-assumed before stmt
        self.no_havoc = list(no_havoc)


class CalleeSpec:
    """contract of a callee used modularly at call sites"""

    def __init__(self, params, requires=(), ensures=(), frame=None, result=None, defaults=None, updates=None):
        self.params = list(params)
        self.updates = updates or {}   # ghost variables of the caller assigned by the call: {ghost_name: expression over the pre-state}
        self.requires = list(requires)
        self.ensures = list(ensures)
        self.frame = frame or {}       # {param: None (whole view may change) | (idxvars, predicate that MAY change)}
        self.result = result           # None | type tag | 'tuple:...'
        self.defaults = defaults or {}


class FnSpec:
    def __init__(self, file, qualname, args, prop, mode='int', requires=(), ensures=(), rejects=(),
                 frame=None, loops=None, callees=None, ghosts=None, ignore=(), name=None, check_fits=False,
                 allow_raise=(), hints=None, pre_hints=(), slice=None, live_in=None, post_hints=(), inline=(),
                 name_values=(), blocks=(), opaque_mul=False, auto_skolem=False):
        self.file, self.qualname, self.args, self.prop, self.mode = file, qualname, args, prop, mode
        self.requires, self.ensures, self.rejects = list(requires), list(ensures), list(rejects)
        self.frame = frame            # list of array arg names that may be written (None = no frame check)
        self.loops = loops or {}
        self.callees = callees or {}
        self.ghosts = ghosts
        self.ignore = list(ignore)
        self.name = name or qualname
        self.check_fits = check_fits
        self.allow_raise = list(allow_raise)
        self.hints = hints or {}
        self.pre_hints = list(pre_hints)
        self.post_hints = list(post_hints)
        self.slice = slice
        self.live_in = live_in
        self.inline = list(inline)
        self.name_values = set(name_values)
        self.blocks = list(blocks)
        self.auto_skolem = auto_skolem  # universally quantified goals are proved for fresh constants with engine-side instantiation of the hypotheses
        self.opaque_mul = opaque_mul    # abstraction: real products / quotients of non-constants are uninterpreted (sound: proves more general fact)


# --------------------------------------------------------------------------------------------------
# module loading


class ModInfo:
    def __init__(self, root, relpath):
        self.relpath = relpath
        self.path = os.path.join(root, relpath)
        self.src = open(self.path).read()
        self.tree = ast.parse(self.src)
        self.aliases = {}     # local name -> dotted module / object
        self.funcs = {}       # qualname -> FunctionDef
        self.assigns = {}     # module-level name -> value AST
        for n in self.tree.body:
            if isinstance(n, ast.Import):
                for a in n.names:
                    self.aliases[a.asname or a.name.split('.')[0]] = a.name if a.asname else a.name.split('.')[0]
            elif isinstance(n, ast.ImportFrom):
                for a in n.names:
                    self.aliases[a.asname or a.name] = (('.' * n.level) + (n.module or '')) + '.' + a.name
            elif isinstance(n, ast.Assign) and len(n.targets) == 1 and isinstance(n.targets[0], ast.Name):
                self.assigns[n.targets[0].id] = n.value
        self._collect(self.tree.body, '')

    def _collect(self, body, prefix):
        for n in body:
            if isinstance(n, (ast.FunctionDef,)):
                self.funcs[prefix + n.name] = n
                self._collect(n.body, prefix + n.name + '.')
            elif isinstance(n, ast.ClassDef):
                self._collect(n.body, prefix + n.name + '.')
            elif isinstance(n, (ast.If, ast.For, ast.While, ast.With, ast.Try)):
                for fld in ('body', 'orelse', 'finalbody'):
                    self._collect(getattr(n, fld, []) or [], prefix)

    def func(self, qualname):
        if qualname not in self.funcs:
            raise ContractError(f'function {qualname} not found in {self.relpath}')
        return self.funcs[qualname]

    def func_hash(self, qualname):
        return hashlib.sha256(ast.unparse(self.func(qualname)).encode()).hexdigest()[:16]


def decorator_flags(fn):
    flags = {}
    for d in fn.decorator_list:
        s = ast.unparse(d)
        if 'parallel=True' in s:
            flags['parallel'] = True
        if 'fastmath=True' in s:
            flags['fastmath'] = True
        if 'njit' in s or 'jit' in s:
            flags['njit'] = True
    return flags


# --------------------------------------------------------------------------------------------------
# the engine

_fresh = itertools.count()


def fresh(name, sort):
    return z3.Const(f'{name}!{next(_fresh)}', sort)


def norm_src(node, limit=70):
    s = re.sub(r'\s+', ' ', ast.unparse(node))
    return s if len(s) <= limit else s[:limit - 3] + '...'


class Engine:
    def __init__(self, root='/repo'):
        self.root = root
        self.mods = {}
        self.obls = []
        self.spec = None
        self.specmode = 0
        self.ghost = {}
        self.axioms = []
        self.unfolders = {}
        self.fninfo = []         # evidence: functions under contract
        self.assumed = []        # evidence: assumed library contracts actually used
        self.name_count = {}
        self.nprune = 0
        self.cur_fn = None
        self.prange_ctx = None
        self.bound_ids = {}
        self.bound_keep = []       # keeps bound-variable ASTs alive so their ids are never recycled
        self.pending_defs = []
        self.def_instances = {}

    # ---------------- infrastructure
    def mentions_bound(self, terms):
        if not self.bound_ids:
            return False
        seen = set()
        stack = list(terms)
        while stack:
            x = stack.pop()
            i = x.get_id()
            if i in seen:
                continue
            seen.add(i)
            if i in self.bound_ids:
                return True
            stack.extend(x.children())
        return False

    def mod(self, relpath):
        if relpath not in self.mods:
            self.mods[relpath] = ModInfo(self.root, relpath)
        return self.mods[relpath]

    def note_assumed(self, what):
        if what not in self.assumed:
            self.assumed.append(what)

    def oblige(self, st, kind, goal, node=None, label=None, extra=None):
        if self.specmode:
            return
        if isinstance(goal, bool):
            goal = z3.BoolVal(goal)
        g = simp(goal)
        src = label if label is not None else (norm_src(node) if node is not None else '')
        base = f'{self.spec.prop}.{self.spec.name}.{kind}[{src}]'
        k = self.name_count.get(base, 0)
        self.name_count[base] = k + 1
        name = base if k == 0 else f'{base}#{k}'
        if z3.is_true(g):
            # trivially true after simplification: still counted (discharged by the simplifier)
            o = Obl(name, kind, [], z3.BoolVal(True), src, getattr(node, 'lineno', 0), self.spec.name, extra)
            o.result = dict(status='unsat', backend='simplifier', time=0.0)
            self.obls.append(o)
            return
        pc, g2 = list(st.pc), g
        if getattr(self.spec, 'auto_skolem', False) and z3.is_quantifier(g) and g.is_forall() and g.num_vars() <= 2 \
                and all(g.var_sort(k) == z3.IntSort() for k in range(g.num_vars())):
            # a universally quantified goal (invariant clause, postcondition): prove it for fresh constants, with the universal
            # hypotheses instantiated at them by the engine (see instantiate_at) - the generalisation is what gets assumed afterwards
            cs = [fresh('sk_' + g.var_name(k).replace('?b', ''), z3.IntSort()) for k in range(g.num_vars())]
            tmp = St(st.env, st.heap, pc)
            self.instantiate_at(tmp, cs)
            g2 = simp(z3.substitute_vars(g.body(), *reversed(cs)))
        self.obls.append(Obl(name, kind, pc, g2, src, getattr(node, 'lineno', 0), self.spec.name, extra))
        st.pc.append(g)      # assert-then-assume

    def feasible(self, st, cond):
        """cheap pruning on the quantifier-free part of the path condition (sound: only drops unsat paths)"""
        c = simp(cond)
        if z3.is_false(c):
            return False
        if z3.is_true(c):
            return True
        s = z3.Solver()
        s.set('timeout', 1500)
        for f in st.pc:
            if not has_quant(f):
                s.add(f)
        s.add(c)
        r = s.check()
        if r == z3.unsat:
            self.nprune += 1
            return False
        return True

    # ---------------- arrays
    def new_array(self, st, name, shape, ety, dt=None, init=None, readonly=False):
        base = f'{name}!{next(_fresh)}' if name in st.heap else name
        srt = sort_of(ety)
        for _ in shape:
            srt = z3.ArraySort(z3.IntSort(), srt)
        if init is None:
            term = z3.Const(base, srt)
        else:
            term = init
            for d in range(len(shape)):
                # build K over nested sorts inside-out
                pass
            term = self.const_array(len(shape), ety, init)
        st.heap[base] = term
        axes = [('r', z3.IntVal(0), I(s)) for s in shape]
        return Arr(base, axes, ety, dt, readonly)

    def const_array(self, ndim, ety, val):
        t = val
        srt = sort_of(ety)
        for _ in range(ndim):
            t = z3.K(z3.IntSort(), t)
        return t

    def base_index(self, arr, idxs):
        out = []
        it = iter(idxs)
        for a in arr.axes:
            if a[0] == 'i':
                out.append(a[1])
            else:
                try:
                    out.append(simp(a[1] + next(it)))
                except StopIteration:
                    raise Unsupported('too few indices')
        return out

    const_heap = {}

    def sel(self, st, arr, idxs):
        t = st.heap[arr.base] if arr.base in st.heap else self.const_heap[arr.base]
        for b in self.base_index(arr, idxs):
            t = z3.Select(t, b)
        return t

    def sto(self, st, arr, idxs, v):
        bidx = self.base_index(arr, idxs)

        def rec(t, k):
            if k == len(bidx):
                return v
            return z3.Store(t, bidx[k], rec(z3.Select(t, bidx[k]), k + 1))
        st.heap[arr.base] = rec(st.heap[arr.base], 0)

    def wrap_index(self, st, arr, axis_len, idx, node, what='bounds'):
        """numba semantics: negative index wraps once, then no check -> obligation 0 <= w < len"""
        c = conc_int(simp(I(idx)))
        L = axis_len
        if c is not None:
            w = L + c if c < 0 else z3.IntVal(c)
        else:
            i = I(idx)
            if self.specmode or not self.feasible(st, i < 0):
                w = i            # provably non-negative on this path: no wrap
            else:
                w = z3.If(i < 0, i + L, i)
        w = simp(w) if not isinstance(w, int) else z3.IntVal(w)
        if not self.specmode:
            self.oblige(st, what, z3.And(w >= 0, w < L), node)
        return w

    def clamp_slice(self, L, lo, hi, st=None):
        """numba slice semantics (negative wraps once, then clamp to [0, L]); when the path condition already decides that a
        bound is inside [0, L] the clamp is dropped so that later formulas mention the plain offset"""
        def norm(x, default):
            if x is None:
                return default
            x = I(x)
            c = conc_int(simp(x))
            if c is not None and c >= 0:
                if st is not None and not self.specmode and not self.feasible(st, z3.IntVal(c) > L):
                    return z3.IntVal(c)
                return z3.If(z3.IntVal(c) > L, L, z3.IntVal(c))
            if st is not None and not self.specmode and not self.feasible(st, z3.Or(x < 0, x > L)):
                return x
            x = z3.If(x < 0, x + L, x)
            return z3.If(x < 0, z3.IntVal(0), z3.If(x > L, L, x))
        lo2 = norm(lo, z3.IntVal(0))
        hi2 = norm(hi, L)
        if st is not None and not self.specmode and not self.feasible(st, hi2 < lo2):
            ln = hi2 - lo2
        else:
            ln = z3.If(hi2 - lo2 > 0, hi2 - lo2, z3.IntVal(0))
        return simp(lo2), simp(ln)

    # ---------------- expression evaluation
    def ev(self, n, st):
        m = getattr(self, 'ev_' + type(n).__name__, None)
        if m is None:
            raise Unsupported('expression ' + type(n).__name__ + ': ' + norm_src(n))
        return m(n, st)

    def ev_Constant(self, n, st):
        if isinstance(n.value, complex):
            self.note_assumed('complex values are abstracted to uninterpreted reals (safety contracts only)')
            return SV(fresh('cplx', z3.RealSort()), 'real')
        if isinstance(n.value, bytes):
            a = self.new_array(st, 'bytes', [z3.IntVal(len(n.value))], 'int', BYTES_DT, readonly=True)
            for k, b in enumerate(n.value):
                st.heap[a.base] = z3.Store(st.heap[a.base], k, b)
            return a
        return n.value

    def ev_Name(self, n, st):
        return self.lookup(n.id, st)

    def lookup(self, name, st):
        if name in st.env:
            v = st.env[name]
            if v is POISON:
                raise Unsupported(f'read of {name} after its loop (value unspecified in the encoding)')
            return v
        if name in self.ghost and self.specmode:
            return self.ghost[name]
        mi = st.env.get('__mod__')
        if mi is not None:
            if name in mi.funcs:
                return FnVal(mi.funcs[name], {'__mod__': mi}, mi, name)
            if name in mi.assigns:
                key = (mi.relpath, name)
                if key not in self._modconst:
                    s0 = St({'__mod__': mi}, {}, [])
                    try:
                        self._modconst[key] = self.ev(mi.assigns[name], s0)
                    except Unsupported:
                        self._modconst[key] = Builtin('opaque:' + name)      # e.g. numba type objects: only passed around
                    self.const_heap.update(s0.heap)       # module-level constant tables
                return self._modconst[key]
            if name in mi.aliases:
                return ModRef(mi.aliases[name])
        if name in PY_BUILTINS:
            return Builtin(name)
        if name in self.ghost:
            return self.ghost[name]
        raise Unsupported('unknown name ' + name)

    _modconst = {}

    def ev_Tuple(self, n, st):
        return tuple(self.ev(e, st) for e in n.elts)

    def ev_List(self, n, st):
        return [self.ev(e, st) for e in n.elts]

    def ev_Dict(self, n, st):
        return {self.ev(k, st): self.ev(v, st) for k, v in zip(n.keys, n.values)}

    def ev_JoinedStr(self, n, st):
        return '<fstring>'

    def ev_Attribute(self, n, st):
        v = self.ev(n.value, st)
        a = n.attr
        if isinstance(v, ModRef):
            full = v.name + '.' + a
            if full in ('numpy', 'numba'):
                return ModRef(full)
            if full.startswith('numpy.') and a in NP_DTYPES:
                return np_dtype(a, self.spec.mode)
            if full in ('numpy.ubyte',):
                return np_dtype('uint8', self.spec.mode)
            if full in ('numpy.byte',):
                return np_dtype('int8', self.spec.mode)
            if full == 'numpy.nan':
                # NaN has no real-number semantics: an arbitrary (unconstrained) real
                return SV(fresh('nan', z3.RealSort()), 'real')
            if full == 'numpy.integer':
                return Builtin('numpy.integer')
            if full in ('numba.config', 'numpy.random', 'numpy.fft', 'scipy.fft', 'numba.typed'):
                return ModRef(full)
            if full == 'numba.config.NUMBA_NUM_THREADS':
                return self.symconst('NUMBA_NUM_THREADS', 'int', [lambda t: t >= 1])
            if full == 'numpy.pi':
                return self.symconst('pi', 'real', [lambda t: z3.And(t > 3, t < 4)])
            return Builtin(full)
        if isinstance(v, Arr):
            if a == 'shape':
                return tuple(SV(s, 'int') if conc_int(s) is None else conc_int(s) for s in v.shape)
            if a == 'ndim':
                return v.ndim
            if a == 'size':
                t = z3.IntVal(1)
                for s in v.shape:
                    t = t * s
                return SV(simp(t), 'int')
            if a == 'dtype':
                return v.dt if v.dt is not None else DT(v.ety, {'real': 'float64', 'int': 'int64'}.get(v.ety, v.ety))
            if a == 'itemsize':
                return (v.dt.itemsize if v.dt else 8)
            if a == 'T':
                return Bound('T', v)
            if a in ARR_METHODS:
                return Bound(a, v)
            if a == 'contiguous':
                self.note_assumed('buffers handed to the codec are contiguous (the .contiguous checks never raise)')
                return True
            if a in ('ctypes', 'cast', 'toreadonly', 'tobytes'):
                return Bound(a, v)
            raise Unsupported('array attribute ' + a)
        if isinstance(v, DT):
            if a == 'type':
                return v
            if a == 'itemsize':
                return v.itemsize
        if isinstance(v, Bound) and v.name == 'ctypes' and a == 'data' and isinstance(v.obj, Arr) and v.obj.ndim == 1:
            # address of the first element of the view: base address (one symbol per allocation) + offset in elements (bytes)
            return SV(z3.Int('addr_' + v.obj.base) + v.obj.axes[-1][1], 'int')
        if isinstance(v, Bound) and v.name == 'T' and a in ARR_METHODS:
            return Bound('T.' + a, v.obj)
        if isinstance(v, tuple) and v and v[0] == 'linspace' and a == 'astype':
            return Bound('astype', v)
        if isinstance(v, (list, dict, str)) and a in ('append', 'keys', 'items', 'values', 'get'):
            return getattr(v, a)
        raise Unsupported(f'attribute .{a} on {type(v).__name__}')

    def symconst(self, name, ty, facts=()):
        t = z3.Const(name, sort_of(ty))
        for f in facts:
            fa = f(t)
            if not any(fa.eq(x) for x in self.axioms):
                self.axioms.append(fa)
        return SV(t, ty)

    def ev_UnaryOp(self, n, st):
        v = self.ev(n.operand, st)
        if isinstance(n.op, ast.Not):
            b = self.truth(v)
            return (not b) if isinstance(b, bool) else SV(z3.Not(b), 'bool')
        if isinstance(n.op, ast.USub):
            if isinstance(v, (int, float)):
                return -v
            v = self.tosv(v)
            if v.ty in ('int', 'real'):
                return SV(-v.t, v.ty)
            if is_bv(v.ty):
                return SV(-v.t, v.ty)
        if isinstance(n.op, ast.UAdd):
            return v
        if isinstance(n.op, ast.Invert) and isinstance(v, int):
            return ~v
        raise Unsupported('unary ' + norm_src(n))

    def truth(self, v):
        """python bool or z3 Bool"""
        if isinstance(v, SV):
            if v.ty == 'bool':
                return v.t
            if v.ty == 'int':
                return v.t != 0
            if v.ty == 'real':
                return v.t != 0
            if is_bv(v.ty):
                return v.t != 0
        if is_bytes(v):
            c = conc_int(simp(v.shape[0]))
            return (c != 0) if c is not None else (v.shape[0] != 0)
        if isinstance(v, Arr):
            raise Unsupported('truth value of an array')
        if z3.is_expr(v):
            return v
        return bool(v)

    def tosv(self, v):
        if isinstance(v, SV):
            return v
        if isinstance(v, bool):
            return SV(z3.BoolVal(v), 'bool')
        if isinstance(v, int):
            return SV(z3.IntVal(v), 'int')
        if isinstance(v, float):
            return SV(realval(v), 'real')
        raise Unsupported('scalar expected, got ' + type(v).__name__)

    def ev_BoolOp(self, n, st):
        # short-circuit: concrete operands decide; symbolic ones combine (right operands are evaluated in spec
        # of the left being true/false only when they could generate obligations -> evaluate under a guarded fork)
        is_and = isinstance(n.op, ast.And)
        acc = []
        for e in n.values:
            if acc and not self.specmode:
                # guard obligations of later operands by earlier ones
                g = z3.And(*acc) if is_and else z3.Not(z3.Or(*acc))
                sub = st.fork()
                sub.pc.append(g)
                v = self.ev(e, sub)
                # propagate proved facts is unnecessary; obligations were recorded with the guarded pc
            else:
                v = self.ev(e, st)
            b = self.truth(v)
            if isinstance(b, bool):
                if is_and and not b:
                    return False if not acc else SV(z3.BoolVal(False), 'bool')
                if (not is_and) and b:
                    return True if not acc else SV(z3.BoolVal(True), 'bool')
                continue
            acc.append(b)
        if not acc:
            return True if is_and else False
        return SV(z3.And(*acc) if is_and else z3.Or(*acc), 'bool')

    def ev_IfExp(self, n, st):
        c = self.truth(self.ev(n.test, st))
        if isinstance(c, bool):
            return self.ev(n.body if c else n.orelse, st)
        a = self.tosv(self.ev(n.body, st))
        b = self.tosv(self.ev(n.orelse, st))
        a, b = self.unify2(a, b)
        return SV(z3.If(c, a.t, b.t), a.ty)

    def ev_Compare(self, n, st):
        left = self.ev(n.left, st)
        out = []
        for op, r in zip(n.ops, n.comparators):
            right = self.ev(r, st)
            out.append(self.compare(op, left, right, n))
            left = right
        if all(isinstance(o, bool) for o in out):
            return all(out)
        ts = [z3.BoolVal(o) if isinstance(o, bool) else o for o in out]
        return SV(z3.And(*ts) if len(ts) > 1 else ts[0], 'bool')

    def compare(self, op, a, b, n):
        if isinstance(op, (ast.Is, ast.IsNot)):
            if isinstance(a, (SV, Arr)) or isinstance(b, (SV, Arr)):
                other = b if isinstance(a, (SV, Arr)) else a
                if other is None or (isinstance(other, bool) and (isinstance(a, Arr) or isinstance(b, Arr))):
                    r = False
                elif isinstance(a, Arr) and isinstance(b, Arr):
                    r = a is b
                else:
                    raise Unsupported('identity of symbolic values')
            elif isinstance(a, Builtin) and isinstance(b, Builtin):
                r = a.name == b.name
            else:
                r = a is b
            return r if isinstance(op, ast.Is) else (not r)
        if isinstance(op, (ast.In, ast.NotIn)):
            if isinstance(a, SV) or isinstance(b, (SV, Arr)):
                raise Unsupported('membership on symbolic value')
            r = a in b
            return r if isinstance(op, ast.In) else (not r)
        if not isinstance(a, SV) and not isinstance(b, SV):
            if isinstance(a, Arr) or isinstance(b, Arr):
                raise Unsupported('array comparison')
            return {ast.Eq: lambda: a == b, ast.NotEq: lambda: a != b, ast.Lt: lambda: a < b,
                    ast.LtE: lambda: a <= b, ast.Gt: lambda: a > b, ast.GtE: lambda: a >= b}[type(op)]()
        a, b = self.unify2(self.tosv(a), self.tosv(b))
        x, y = a.t, b.t
        if is_bv(a.ty):
            signed = BVT[a.ty][1]
            tbl = {ast.Eq: lambda: x == y, ast.NotEq: lambda: x != y,
                   ast.Lt: lambda: (x < y) if signed else z3.ULT(x, y),
                   ast.LtE: lambda: (x <= y) if signed else z3.ULE(x, y),
                   ast.Gt: lambda: (x > y) if signed else z3.UGT(x, y),
                   ast.GtE: lambda: (x >= y) if signed else z3.UGE(x, y)}
        else:
            tbl = {ast.Eq: lambda: x == y, ast.NotEq: lambda: x != y, ast.Lt: lambda: x < y,
                   ast.LtE: lambda: x <= y, ast.Gt: lambda: x > y, ast.GtE: lambda: x >= y}
        return tbl[type(op)]()

    def unify2(self, a, b):
        """bring two scalars to a common type (numba typing in BV mode, int->real promotion otherwise)"""
        if a.ty == b.ty:
            return a, b
        if a.ty == 'bool':
            a = SV(z3.If(a.t, z3.IntVal(1), z3.IntVal(0)), 'int')
        if b.ty == 'bool':
            b = SV(z3.If(b.t, z3.IntVal(1), z3.IntVal(0)), 'int')
        if a.ty == b.ty:
            return a, b
        if 'real' in (a.ty, b.ty):
            return self.toreal(a), self.toreal(b)
        if is_bv(a.ty) and is_bv(b.ty):
            ty = numba_unify(a.ty, b.ty)
            return self.bvcast(a, ty), self.bvcast(b, ty)
        if is_bv(a.ty) and b.ty == 'int':
            return self.unify2(a, self.int_to_bv_literal(b))
        if a.ty == 'int' and is_bv(b.ty):
            a2, b2 = self.unify2(self.int_to_bv_literal(a), b)
            return a2, b2
        raise Unsupported(f'unify {a.ty} {b.ty}')

    def int_to_bv_literal(self, v):
        # python/numba integer literals and intp loop indices are int64
        c = conc_int(simp(v.t))
        if c is not None:
            return SV(z3.BitVecVal(c, 64), 'i64')
        return SV(z3.Int2BV(v.t, 64), 'i64')

    def toreal(self, v):
        if v.ty == 'real':
            return v
        if v.ty == 'int':
            c = conc_int(v.t)
            return SV(z3.RealVal(c) if c is not None else z3.ToReal(v.t), 'real')
        if v.ty == 'bool':
            return SV(z3.If(v.t, z3.RealVal(1), z3.RealVal(0)), 'real')
        if is_bv(v.ty):
            return SV(self.bv2real(v), 'real')
        raise Unsupported('toreal ' + v.ty)

    def bv2real(self, v):
        """exact integer value of a bit-vector as a real (z3 bv2int; decided by z3 5.1's int-blasting)"""
        bits, signed = BVT[v.ty]
        return z3.ToReal(z3.BV2Int(v.t, signed))

    def bvcast(self, v, ty):
        if v.ty == ty:
            return v
        if v.ty == 'int':
            return SV(z3.Int2BV(v.t, BVT[ty][0]), ty)
        if v.ty == 'bool':
            return SV(z3.If(v.t, z3.BitVecVal(1, BVT[ty][0]), z3.BitVecVal(0, BVT[ty][0])), ty)
        b0, s0 = BVT[v.ty]
        b1, _ = BVT[ty]
        if b1 == b0:
            t = v.t
        elif b1 < b0:
            t = z3.Extract(b1 - 1, 0, v.t)
        else:
            t = z3.SignExt(b1 - b0, v.t) if s0 else z3.ZeroExt(b1 - b0, v.t)
        return SV(simp(t), ty)

    def ev_BinOp(self, n, st):
        a = self.ev(n.left, st)
        b = self.ev(n.right, st)
        return self.binop(n.op, a, b, st, n)

    def binop(self, op, a, b, st, n=None):
        if not isinstance(a, (SV, Arr)) and not isinstance(b, (SV, Arr)):
            if isinstance(a, (list, tuple, str)) or isinstance(b, (list, tuple, str)):
                if isinstance(op, ast.Add):
                    return a + b
                if isinstance(op, ast.Mult):
                    return a * b
                if isinstance(op, ast.Mod):
                    return '<fmt>'
                raise Unsupported('sequence op')
            try:
                return PYOPS[type(op)](a, b)
            except KeyError:
                raise Unsupported('binop ' + type(op).__name__)
            except ZeroDivisionError:
                raise Unsupported('concrete division by zero')
        if isinstance(a, Arr) and not isinstance(b, Arr) and isinstance(op, (ast.Add, ast.Sub, ast.Mult)) and not self.specmode:
            from . import library
            return library.array_scalar_op(self, st, op, a, b, n)
        if isinstance(op, ast.Add) and is_bytes(a) and isinstance(b, Arr) and b.ndim == 1 and b.ety == 'int':
            return self.concat_bytes(st, a, b)
        if isinstance(a, Arr) or isinstance(b, Arr):
            raise Unsupported('whole-array arithmetic ' + (norm_src(n) if n is not None else ''))
        if isinstance(op, ast.Pow) and isinstance(b, (int, float)) and not isinstance(b, bool) and isinstance(a, SV):
            # real power with a concrete exponent: integers by repeated multiplication (negative: reciprocal),
            # half-integers through s = sqrt(a) (s >= 0, s*s = a)
            e2 = fractions.Fraction(b) * 2
            if e2.denominator == 1 and abs(e2) <= 64 and (a.ty in ('int', 'real')) and (e2 % 2 != 0 or b < 0 or isinstance(b, float)):
                ar = self.toreal(a).t
                m, half = divmod(int(abs(e2)), 2)
                r = z3.RealVal(1)
                for _ in range(m):
                    r = r * ar
                if half:
                    sq = fresh('sqrt', z3.RealSort())
                    if not self.specmode:
                        self.oblige(st, 'domain', ar >= 0, n)
                    st.pc.append(z3.And(sq >= 0, sq * sq == ar))
                    r = r * sq
                if b < 0:
                    if not self.specmode:
                        self.oblige(st, 'divzero', ar != 0, n)
                    r = 1 / r
                return SV(r, 'real')
        a, b = self.tosv(a), self.tosv(b)
        t = type(op)
        if t in (ast.LShift, ast.RShift, ast.BitAnd, ast.BitOr, ast.BitXor):
            return self.bitop(t, a, b, n)
        if t is ast.Pow:
            cb = conc_int(simp(b.t)) if b.ty == 'int' else None
            if cb is None or cb < 0 or cb > 8:
                if b.ty == 'int' and a.ty in ('int', 'real') and self.specmode:
                    return SV(POW(self.toreal(a).t, self.toreal(b).t), 'real')
                if b.ty == 'real' and a.ty in ('int', 'real'):
                    # real exponent: the total uninterpreted function pow(x, y) over the reals (anything proved holds for the true power)
                    return SV(POW(self.toreal(a).t, b.t), 'real')
                raise Unsupported('power with non-small-constant exponent')
            if is_bv(a.ty):
                # numba: uint64 ** int64 literal -> int64 (observed), other ints -> int64 as well
                a = self.bvcast(a, 'i64')
                r = z3.BitVecVal(1, 64)
                for _ in range(cb):
                    r = r * a.t
                return SV(r, 'i64')
            r = None
            for _ in range(cb):
                r = a.t if r is None else r * a.t
            if r is None:
                r = z3.IntVal(1) if a.ty == 'int' else z3.RealVal(1)
            return SV(r, a.ty)
        if t is ast.Div:
            a, b = self.toreal(a), self.toreal(b)
            if not self.specmode:
                self.oblige(st, 'divzero', b.t != 0, n)
            if getattr(self.spec, 'opaque_mul', False) and not z3.is_rational_value(simp(b.t)):
                return SV(RDIV(simp(a.t), simp(b.t)), 'real')
            return SV(a.t / b.t, 'real')
        a, b = self.unify2(a, b)
        if t is ast.Add:
            return SV(a.t + b.t, a.ty)
        if t is ast.Sub:
            return SV(a.t - b.t, a.ty)
        if t is ast.Mult:
            if getattr(self.spec, 'opaque_mul', False) and a.ty == 'real':
                # products of two non-constant reals as an uninterpreted commutative function: the contract and the code build
                # the same products, so equalities follow by congruence and the solver never enters non-linear arithmetic
                return SV(self.mul_terms(a.t, b.t), 'real')
            return SV(a.t * b.t, a.ty)
        if t in (ast.FloorDiv, ast.Mod):
            if a.ty == 'int':
                cb = conc_int(simp(b.t))
                if cb is None or cb <= 0:
                    if not self.specmode:
                        self.oblige(st, 'divpos', b.t > 0, n)     # python // and % agree with SMT div/mod for b > 0
                    elif cb is not None:
                        raise Unsupported('floor division by non-positive constant')
                return SV(a.t / b.t if t is ast.FloorDiv else a.t % b.t, 'int')
            if a.ty == 'real' and t is ast.FloorDiv:
                return SV(z3.ToReal(z3.ToInt(a.t / b.t)), 'real')
            if is_bv(a.ty):
                signed = BVT[a.ty][1]
                if signed:
                    raise Unsupported('signed bit-vector floor division')
                return SV(z3.UDiv(a.t, b.t) if t is ast.FloorDiv else z3.URem(a.t, b.t), a.ty)
        raise Unsupported('binop ' + t.__name__ + ' on ' + a.ty)

    def mul_terms(self, x, y):
        """product of two real z3 terms the way the interpreter builds it (for ghost definitions written directly in z3)"""
        x, y = simp(x), simp(y)
        if getattr(self.spec, 'opaque_mul', False) and not z3.is_rational_value(x) and not z3.is_rational_value(y):
            # operands stay in source order (an order chosen from the terms would not survive the substitution of bound variables);
            # commutativity is available to the solver as an axiom (Engine.verify adds it for opaque_mul contracts)
            return RMUL(x, y)
        return x * y

    def concat_bytes(self, st, a, b):
        """bytes + bytes-like: a new immutable byte string (elements are raw byte values)"""
        la, lb = a.shape[0], b.shape[0]
        r = self.new_array(st, 'bytes', [simp(la + lb)], 'int', BYTES_DT, readonly=True)
        q = fresh('cq', z3.IntSort())
        ra = z3.Select(st.heap[r.base], q)
        st.pc.append(z3.ForAll([q], z3.Implies(z3.And(0 <= q, q < la + lb),
                                               ra == z3.If(q < la, self.sel(st, a, [q]), self.sel(st, b, [q - la]))), patterns=[ra]))
        return r

    def bitop(self, t, a, b, n):
        if self.spec.mode != 'bv' and a.ty == 'int' and b.ty == 'int':
            ca, cb = conc_int(simp(a.t)), conc_int(simp(b.t))
            if ca is not None and cb is not None:
                return SV(z3.IntVal(PYOPS[t](ca, cb)), 'int')
            if t is ast.LShift and cb is not None:
                return SV(a.t * (2 ** cb), 'int')
            if t is ast.RShift and cb is not None:
                return SV(a.t / (2 ** cb), 'int')
            if t is ast.BitAnd and cb is not None and (cb & (cb + 1)) == 0:
                return SV(a.t % (cb + 1), 'int')
            raise Unsupported('bit operation on mathematical integers: ' + (norm_src(n) if n is not None else ''))
        if a.ty == 'int':
            a = self.int_to_bv_literal(a)
        if b.ty == 'int':
            b = self.int_to_bv_literal(b)
        if a.ty == 'bool':
            a = self.bvcast(a, 'i64')
        if b.ty == 'bool':
            b = self.bvcast(b, 'i64')
        if not (is_bv(a.ty) and is_bv(b.ty)):
            raise Unsupported('bit operation on ' + a.ty + ',' + b.ty)
        ty = numba_unify(a.ty, b.ty)
        a, b = self.bvcast(a, ty), self.bvcast(b, ty)
        signed = BVT[ty][1]
        if t is ast.BitAnd:
            r = a.t & b.t
        elif t is ast.BitOr:
            r = a.t | b.t
        elif t is ast.BitXor:
            r = a.t ^ b.t
        elif t is ast.LShift:
            r = a.t << b.t
        else:
            r = (a.t >> b.t) if signed else z3.LShR(a.t, b.t)
        return SV(simp(r), ty)

    # ---------------- subscripts
    def ev_Subscript(self, n, st):
        v = self.ev(n.value, st)
        if isinstance(v, (tuple, list, dict, str)) and not isinstance(v, Arr):
            k = self.ev(n.slice, st) if not isinstance(n.slice, ast.Slice) else slice(
                *[None if x is None else self.concrete(self.ev(x, st)) for x in (n.slice.lower, n.slice.upper, n.slice.step)])
            if isinstance(k, SV):
                k = self.concrete(k)
            try:
                return v[k]
            except (IndexError, KeyError) as e:
                raise Unsupported(f'concrete container access failed: {e!r} in {norm_src(n)}')
        if not isinstance(v, Arr):
            raise Unsupported('subscript on ' + type(v).__name__)
        r = self.index_view(st, v, n.slice, n)
        if isinstance(r, Arr):
            return r
        idxs = r
        return SV(self.sel(st, v, idxs), v.ety)

    def concrete(self, v):
        if isinstance(v, SV):
            c = conc_int(simp(v.t))
            if c is None:
                raise Unsupported('concrete integer expected')
            return c
        return v

    def index_view(self, st, arr, sl, node):
        """returns list of scalar indices (full indexing) or a new Arr view"""
        elts = sl.elts if isinstance(sl, ast.Tuple) else [sl]
        if len(elts) > arr.ndim:
            raise Unsupported(f'too many indices for array: {norm_src(node)}')
        scalar = []
        newaxes = []
        k = 0
        partial = False
        for a in arr.axes:
            if a[0] == 'i':
                newaxes.append(a)
                continue
            if k < len(elts):
                e = elts[k]
                k += 1
                if isinstance(e, ast.Slice):
                    if e.step is not None:
                        raise Unsupported('strided slice')
                    lo = None if e.lower is None else self.ev(e.lower, st)
                    hi = None if e.upper is None else self.ev(e.upper, st)
                    off, ln = self.clamp_slice(a[2], lo, hi, st)
                    newaxes.append(('r', simp(a[1] + off), ln))
                    partial = True
                else:
                    iv = self.ev(e, st)
                    if isinstance(iv, Arr):
                        if len(elts) == 1 and arr.ndim == 1 and iv.ndim == 1 and iv.ety == 'int':
                            return self.fancy_index(st, arr, iv, node)
                        raise Unsupported('fancy indexing ' + norm_src(node))
                    w = self.wrap_index(st, arr, a[2], iv, node)
                    scalar.append(w)
                    newaxes.append(('i', simp(a[1] + w)))
            else:
                newaxes.append(a)
                partial = True
        if not partial:
            return scalar
        return Arr(arr.base, newaxes, arr.ety, arr.dt, arr.readonly)

    def fancy_index(self, st, arr, idx, node):
        """a[idx] with a 1-D integer index array: every index must be in bounds (after numba's single wrap); the result is a
        fresh array with result[q] == a[wrap(idx[q])]"""
        q = fresh('fq', z3.IntSort())
        L = arr.shape[0]
        iv = self.sel(st, idx, [q])
        w = z3.If(iv < 0, iv + L, iv)
        if not self.specmode:
            sub = St(st.env, st.heap, list(st.pc))
            sub.pc.append(z3.And(q >= 0, q < idx.shape[0]))
            self.oblige(sub, 'bounds', z3.And(w >= 0, w < L), node, label='every index of ' + norm_src(node))
            st.pc.append(z3.ForAll([q], z3.Implies(z3.And(q >= 0, q < idx.shape[0]), z3.And(w >= 0, w < L))))
        new = self.new_array(st, 'gather', [idx.shape[0]], arr.ety, arr.dt)
        st.pc.append(z3.ForAll([q], z3.Select(st.heap[new.base], q) == self.sel(st, arr, [w]), patterns=[z3.Select(st.heap[new.base], q)]))
        return [new] if False else new

    # ---------------- calls
    def ev_Call(self, n, st):
        if isinstance(n.func, ast.Name) and n.func.id in ('forall', 'exists', 'implies', 'old', 'iter_old') \
                and n.func.id not in st.env:
            if not self.specmode:
                raise Unsupported('contract-language function in program code')
            from . import library
            nm = n.func.id
            if nm in ('forall', 'exists'):
                return library.quantifier(self, st, n, nm == 'forall')
            if nm == 'implies':
                a = self.truth(self.ev(n.args[0], st))
                if isinstance(a, bool):
                    if not a:
                        return True
                    b = self.truth(self.ev(n.args[1], st))
                    return b if isinstance(b, bool) else SV(b, 'bool')
                b = self.truth(self.ev(n.args[1], st))
                b = z3.BoolVal(b) if isinstance(b, bool) else b
                return SV(z3.Implies(a, b), 'bool')
            if nm in ('old', 'iter_old'):
                o = st.env.get('__old__' if nm == 'old' else '__iter_start__')
                if o is None:
                    raise ContractError('old() without entry state')
                sub = St(dict(o.env), o.heap, st.pc)
                for k, v in st.env.items():
                    if k not in sub.env:
                        sub.env[k] = v
                sub.env.update({k: v for k, v in st.env.items() if k.startswith('__bound_')})
                for k in getattr(st, 'bound', ()):
                    sub.env[k] = st.env[k]
                return self.ev(n.args[0], sub)
        f = self.ev(n.func, st)
        if any(isinstance(a, ast.Starred) for a in n.args):
            raise Unsupported('star args')
        args = [self.ev(a, st) for a in n.args]
        kw = {}
        for k in n.keywords:
            if k.arg is None:
                d = self.ev(k.value, st)
                if not isinstance(d, dict):
                    raise Unsupported('** of non-dict')
                kw.update(d)
            else:
                kw[k.arg] = self.ev(k.value, st)
        return self.call(f, args, kw, st, n)

    def call(self, f, args, kw, st, n):
        if isinstance(f, DT):
            if len(args) != 1:
                raise Unsupported('dtype call')
            return self.cast(args[0], f, st, n)
        if isinstance(f, Builtin):
            from . import library
            cs = self.spec.callees.get(f.name)
            if cs is not None:
                # library function under an (assumed) contract supplied by the sidecar
                bound = dict(zip(cs.params, args))
                bound.update(kw)
                self.note_assumed(f'library contract for {f.name}: ' + '; '.join(cs.ensures))
                return self.contract_call(f.name, cs, bound, st, n)
            h = library.BUILTINS.get(f.name)
            if h is None:
                raise Unsupported('call of ' + f.name)
            return h(self, st, args, kw, n)
        if isinstance(f, Bound):
            from . import library
            h = library.METHODS.get(f.name)
            if h is None:
                raise Unsupported('method ' + f.name)
            return h(self, st, f.obj, args, kw, n)
        if isinstance(f, FnVal):
            return self.call_fn(f, args, kw, st, n)
        if callable(f) and self.specmode and not getattr(f, '_pyvc_ghost', False):
            return f(*args, **kw)
        if callable(f) and getattr(f, '__self__', None) is not None and isinstance(f.__self__, (list, dict)):
            return f(*args, **kw)
        if callable(f) and getattr(f, '_pyvc_ghost', False):
            r = f(*args, **kw)
            if self.pending_defs:
                for inst in self.pending_defs:
                    if not any(inst is x for x in st.pc[-40:]):
                        st.pc.append(inst)
                self.pending_defs = []
            return r
        raise Unsupported('call of ' + repr(f))

    def cast(self, v, dt, st, n):
        if isinstance(v, Arr):
            raise Unsupported('dtype(array)')
        if isinstance(v, (int, float, bool)) and not isinstance(v, SV):
            if dt.tag == 'real':
                return float(v)
            if dt.tag == 'int':
                if isinstance(v, float):
                    v = int(v)
                return int(v)
            if is_bv(dt.tag):
                if dt.tag == 'i64':
                    return int(v)       # int64 counters/indices stay mathematical (assumption: no overflow below 2^63)
                return SV(z3.BitVecVal(int(v), BVT[dt.tag][0]), dt.tag)
            if dt.tag == 'bool':
                return bool(v)
        v = self.tosv(v)
        if dt.tag == 'real':
            return self.toreal(v)
        if dt.tag == 'int':
            if v.ty == 'real':
                r = z3.If(v.t >= 0, z3.ToInt(v.t), -z3.ToInt(-v.t))       # truncation toward zero
                r = SV(r, 'int')
            elif v.ty == 'int':
                r = v
            elif v.ty == 'bool':
                r = SV(I(v), 'int')
            else:
                raise Unsupported('cast bv->int')
            if self.spec.check_fits and dt.bits and not self.specmode:
                lo, hi = (-(2 ** (dt.bits - 1)), 2 ** (dt.bits - 1) - 1) if dt.signed else (0, 2 ** dt.bits - 1)
                self.oblige(st, 'fits', z3.And(r.t >= lo, r.t <= hi), n)
            return r
        if is_bv(dt.tag):
            if v.ty == 'real':
                raise Unsupported('float -> bitvector cast')
            if v.ty == 'int':
                return SV(z3.Int2BV(v.t, BVT[dt.tag][0]), dt.tag)
            return self.bvcast(v, dt.tag)
        if dt.tag == 'bool':
            return SV(self.truth(v), 'bool')
        raise Unsupported('cast to ' + dt.tag)

    def store_cast(self, v, arr, st, n):
        """value stored into an array element of type arr.ety"""
        v = self.tosv(v)
        if arr.ety == v.ty:
            if arr.ety == 'int' and self.spec.check_fits and arr.dt is not None and arr.dt.bits and arr.dt.bits < 64:
                lo, hi = (-(2 ** (arr.dt.bits - 1)), 2 ** (arr.dt.bits - 1) - 1) if arr.dt.signed else (0, 2 ** arr.dt.bits - 1)
                self.oblige(st, 'fits', z3.And(v.t >= lo, v.t <= hi), n)
            return v.t
        if arr.ety == 'real':
            return self.toreal(v).t
        if arr.ety == 'int':
            if v.ty == 'bool':
                return I(v)
            if v.ty == 'real':
                raise Unsupported('implicit float->int store')
        if is_bv(arr.ety):
            if is_bv(v.ty) or v.ty in ('int', 'bool'):
                if v.ty == 'int':
                    v = self.int_to_bv_literal(v)
                return self.bvcast(v, arr.ety).t
        if arr.ety == 'bool':
            return self.truth(v)
        raise Unsupported(f'store of {v.ty} into {arr.ety} array')

    # ---- function calls: modular (contract) or inline
    def bind_args(self, fn, args, kw, st_env_defaults):
        a = fn.args
        if a.vararg or a.kwarg or a.posonlyargs:
            raise Unsupported('varargs')
        names = [x.arg for x in a.args]
        bound = {}
        if len(args) > len(names):
            raise Unsupported('too many positional arguments')
        for nm, v in zip(names, args):
            bound[nm] = v
        for k, v in kw.items():
            if k in bound:
                raise Unsupported('duplicate argument ' + k)
            if k not in names and k not in [x.arg for x in a.kwonlyargs]:
                raise Unsupported('unexpected keyword ' + k)
            bound[k] = v
        defaults = dict(zip(names[len(names) - len(a.defaults):], a.defaults))
        for x, d in zip(a.kwonlyargs, a.kw_defaults):
            if d is not None:
                defaults[x.arg] = d
        for nm in names + [x.arg for x in a.kwonlyargs]:
            if nm not in bound:
                if nm not in defaults:
                    raise Unsupported('missing argument ' + nm)
                bound[nm] = st_env_defaults(defaults[nm])
        return bound

    def call_fn(self, f, args, kw, st, n):
        q = f.qualname
        cs = self.spec.callees.get(q)
        bound = self.bind_args(f.node, args, kw, lambda d: self.ev(d, St({'__mod__': f.mod}, {}, [])))
        if cs is None and (q in self.spec.inline or '.' in q):
            return self.inline_call(f, bound, st, n)
        if cs is None:
            raise Unsupported(f'call of {q} without contract (declare a callee contract or inline)')
        return self.contract_call(q, cs, bound, st, n)

    def inline_call(self, f, bound, st, n):
        """execute the callee body on a fork of the caller state; several returning paths are merged into one
        if-then-else value (only for side-effect-free callees)"""
        pre_len = len(st.pc)
        work = st.fork()
        env = dict(f.env)
        env.update(bound)
        env['__mod__'] = f.mod
        work.env = env
        outs = self.exec_block(f.node.body, [work])
        for o in outs:
            if o.flow == 'raise':
                raise Unsupported('raise inside inlined call')
            if o.flow not in ('ret', None):
                raise Unsupported('break/continue escaping an inlined call')
        if len(outs) == 1:
            o = outs[0]
            st.heap, st.trace = o.heap, o.trace
            st.pc[:] = o.pc
            return o.val if o.flow == 'ret' else None
        for o in outs:
            if set(o.heap) != set(st.heap) or any(not (o.heap[k] is st.heap[k] or o.heap[k].eq(st.heap[k])) for k in o.heap):
                raise Unsupported('inlined call with branching side effects')
        res = None
        for o in reversed(outs):
            guard = z3.And(*o.pc[pre_len:]) if len(o.pc) > pre_len else z3.BoolVal(True)
            v = self.tosv(o.val)
            if res is None:
                res = v
            else:
                v, res = self.unify2(v, res)
                res = SV(z3.If(guard, v.t, res.t), v.ty)
        return SV(simp(res.t), res.ty)

    def contract_call(self, q, cs, bound, st, n):
        self.note_callee(q)
        env = {'__mod__': st.env.get('__mod__')}
        for k_, v_ in st.env.items():
            if k_.startswith('ghost_'):
                env[k_] = v_          # ghost copies of caller values may be named in callee contracts
        for p in cs.params:
            if p in bound:
                env[p] = bound[p]
            elif p in cs.defaults:
                env[p] = cs.defaults[p]
            else:
                raise ContractError(f'callee contract of {q}: parameter {p} not bound')
        pre = St(env, dict(st.heap), st.pc)
        for r in cs.requires:
            g = self.spec_bool(r, pre)
            self.oblige(st, 'pre', g, n, label=f'{q}: {r} @ {norm_src(n, 40)}')
        old_heap = dict(st.heap)
        # havoc the frame
        for p, fr in cs.frame.items():
            a = env.get(p)
            if a is None:
                continue
            if not isinstance(a, Arr):
                raise ContractError(f'frame parameter {p} of {q} is not an array')
            if self.prange_ctx is not None:
                self.prange_ctx.check_callee_frame(self, st, a, fr, env, old_heap, n, q)
            self.havoc_view(st, a, fr, env, old_heap, n)
        res = None
        if cs.result:
            res = self.fresh_value(cs.result, 'ret_' + q.split('.')[-1], st)
        post = St(dict(env), st.heap, st.pc)
        post.env['result'] = res
        post.env['__old__'] = St(env, old_heap, st.pc)
        for e in cs.ensures:
            st.pc.append(self.spec_bool(e, post))
        for gname, expr in cs.updates.items():
            if not gname.startswith('ghost_') or gname not in st.env:
                raise ContractError(f'callee contract of {q}: update of {gname}, which is not a ghost variable of the caller')
            st.env[gname] = self.spec_eval(expr, pre)
        return res

    def note_callee(self, q):
        pass

    def fresh_value(self, ty, name, st):
        if ty.startswith('tuple:'):
            return tuple(self.fresh_value(t, name + str(k), st) for k, t in enumerate(ty[6:].split(';')))
        if ty == 'none':
            return None
        if ty.startswith('arr:'):
            # a freshly allocated array result with symbolic shape and arbitrary contents, e.g. arr:real[:,3]
            a = self.make_arg(f'{name}!{next(_fresh)}', ty[4:], st)
            return a
        return SV(fresh(name, sort_of(ty)), ty)

    def havoc_view(self, st, a, fr, env, old_heap, n):
        """arbitrary new contents inside the view `a` (restricted to the index predicate fr if given); everything
        outside the view keeps its old value"""
        old = old_heap[a.base]
        new = fresh(a.base + '_h', old.sort())
        st.heap[a.base] = new
        nb = len(a.axes)
        vs = [z3.Int(f'q{k}!{next(_fresh)}') for k in range(nb)]
        inside = []
        for ax, v in zip(a.axes, vs):
            if ax[0] == 'i':
                inside.append(v == ax[1])
            else:
                inside.append(z3.And(v >= ax[1], v < ax[1] + ax[2]))
        inside = z3.And(*inside) if inside else z3.BoolVal(True)
        may = inside
        if fr is not None:
            ivars, pred = fr
            names = [x.strip() for x in ivars.split(',')]
            rvs = [v for ax, v in zip(a.axes, vs) if ax[0] == 'r']
            roffs = [ax[1] for ax in a.axes if ax[0] == 'r']
            penv = dict(env)
            for nm, v, off in zip(names, rvs, roffs):
                penv[nm] = SV(v - off, 'int')
            p = self.spec_bool(pred, St(penv, old_heap, st.pc))
            may = z3.And(inside, p)

        def selall(t):
            for v in vs:
                t = z3.Select(t, v)
            return t
        body = z3.Implies(z3.Not(may), selall(new) == selall(old))
        st.pc.append(z3.ForAll(vs, body, patterns=[selall(new)]))
        st.frames = getattr(st, 'frames', [])

    # ---------------- spec-mode evaluation of contract strings
    def spec_eval(self, text, st):
        self.specmode += 1
        try:
            tree = ast.parse(text.strip(), mode='eval').body
            return self.ev(tree, st)
        finally:
            self.specmode -= 1

    def spec_bool(self, text, st):
        v = self.spec_eval(text, st)
        b = self.truth(v)
        return z3.BoolVal(b) if isinstance(b, bool) else b

    # ---------------- statements
    def exec_block(self, stmts, states):
        skip = 0
        for k, s in enumerate(stmts):
            if skip:
                skip -= 1
                continue
            blk = self.match_block(stmts, k)
            if blk is not None:
                nxt = []
                for st in states:
                    if st.flow is not None:
                        nxt.append(st)
                    else:
                        blk['apply'](self, st)
                        nxt.append(st)
                states = nxt
                skip = len(blk['stmts']) - 1
                self.note_assumed('block contract: ' + blk['note'])
                continue
            nxt = []
            for st in states:
                if st.flow is not None:
                    nxt.append(st)
                else:
                    nxt.extend(self.exec_stmt(s, st))
            states = nxt
            if len(states) > 4096:
                raise Unsupported('path explosion (> 4096 live paths)')
        return states

    def match_block(self, stmts, k):
        """a block contract replaces a run of statements (matched by exact normalised source text) by an assumed
        state update written in the sidecar"""
        for blk in self.spec.blocks:
            first = blk['stmts'][0]
            if norm_src(stmts[k], 400) == first:
                got = [norm_src(x, 400) for x in stmts[k:k + len(blk['stmts'])]]
                if got != blk['stmts']:
                    raise ContractError('block contract no longer matches the source: ' + ' | '.join(got))
                return blk
        return None

    def exec_stmt(self, s, st):
        if self.is_ignored(s):
            return [st]
        if self.spec.hints and not self.specmode:
            src0 = norm_src(s, 200)
            for pref, hs in self.spec.hints.items():
                if src0.startswith(pref):
                    for h in hs:
                        self.hint(st, h, s)
        m = getattr(self, 'st_' + type(s).__name__, None)
        if m is None:
            raise Unsupported('statement ' + type(s).__name__ + ': ' + norm_src(s))
        hints = self.cur_body_asserts
        if hints:
            src = norm_src(s, 200)
            for pref, hs in hints.items():
                if src.startswith(pref):
                    if hs and isinstance(s, (ast.Assign, ast.AugAssign)) and any('__rhs__' in h for h in hs):
                        # the value about to be stored/added, for hints that constrain it (evaluated without obligations)
                        self.specmode += 1
                        try:
                            st.env['__rhs__'] = self.ev(s.value, st)
                        finally:
                            self.specmode -= 1
                    for h in hs:
                        self.hint(st, h, s)
        return m(s, st)

    cur_body_asserts = None

    def hint(self, st, h, node=None, kind='hint'):
        """proof hint: 'unfold f(args)' adds an instance of a ghost definition (sound: instance of an axiom);
        'assume-axiom name' is not supported; any other text is proved first and then assumed."""
        h = h.strip()
        if h.startswith('unfold '):
            call = ast.parse(h[7:].strip(), mode='eval').body
            if not isinstance(call, ast.Call) or not isinstance(call.func, ast.Name):
                raise ContractError('bad unfold hint ' + h)
            uf = self.unfolders.get(call.func.id)
            if uf is None:
                raise ContractError('no unfolder for ' + call.func.id)
            self.specmode += 1
            try:
                args = [self.ev(a, st) for a in call.args]
                args = [self.tosv(a) if isinstance(a, (int, float, bool)) else a for a in args]
            finally:
                self.specmode -= 1
            for inst in uf(*args):
                st.pc.append(inst)
            for inst in self.pending_defs:          # definitions of ghost terms created inside the unfolder
                st.pc.append(inst)
            self.pending_defs = []
            return
        if h.startswith('forall_intro '):
            # prove cond ==> body for fresh constants (definitions of ghost terms unfold on them), then assume the
            # universally quantified statement (generalisation over fresh constants)
            using = []
            if ' using ' in h:
                h, u = h.split(' using ', 1)
                using = [x.strip() for x in u.split(';;') if x.strip()]
            extra_terms = []
            if ' at_terms ' in h:
                # further terms at which the universal hypotheses are instantiated together with the fresh constants
                h, tt = h.split(' at_terms ', 1)
                extra_terms = [x.strip() for x in tt.split(';;') if x.strip()]
            call = ast.parse(h[13:].strip(), mode='eval').body
            if not (isinstance(call, ast.Call) and getattr(call.func, 'id', '') == 'forall' and len(call.args) == 3):
                raise ContractError('forall_intro expects forall((vars), cond, body)')
            names = [x.id for x in (call.args[0].elts if isinstance(call.args[0], ast.Tuple) else [call.args[0]])]
            sub = St(dict(st.env), st.heap, st.pc)
            for nm in names:
                sub.env[nm] = SV(fresh(nm + '_sk', z3.IntSort()), 'int')
            self.specmode += 1
            try:
                cond = self.truth(self.ev(call.args[1], sub))
                cond = z3.BoolVal(cond) if isinstance(cond, bool) else cond
            finally:
                self.specmode -= 1
            saved = list(st.pc)
            sub.pc = st.pc
            st.pc.append(cond)
            self.instantiate_at(st, [sub.env[nm].t for nm in names] + [I(self.spec_eval(x, sub)) for x in extra_terms])
            for u in using:
                self.hint(sub, u, node, kind)           # intermediate steps about the same fresh constants
            self.specmode += 1
            try:
                body = self.truth(self.ev(call.args[2], sub))
                body = z3.BoolVal(body) if isinstance(body, bool) else body
            finally:
                self.specmode -= 1
            self.oblige(sub, kind, body, node, label=h)
            # forget everything about the fresh constants; assume the generalised statement
            st.pc[:] = saved
            st.pc.append(self.spec_bool(h[13:].strip(), st))
            return
        if h.startswith('inv_instance '):
            # an instance of a loop-invariant clause that was ASSUMED at the head of the current iteration, taken at the current values
            # of its bound-variable names (typically the fresh constants of an enclosing forall_intro): pure instantiation, done
            # by the engine instead of the solver's e-matching (which is sensitive to the order of operands inside index sums)
            text = h[13:].strip()
            clauses = st.env.get('__inv_clauses__') or []
            if ' '.join(text.split()) not in [' '.join(c.split()) for c in clauses]:
                raise ContractError('inv_instance: not a clause of the enclosing loop invariant: ' + text[:80])
            call = ast.parse(text, mode='eval').body
            if not (isinstance(call, ast.Call) and getattr(call.func, 'id', '') == 'forall' and len(call.args) == 3):
                raise ContractError('inv_instance expects forall((vars), cond, body)')
            names = [x.id for x in (call.args[0].elts if isinstance(call.args[0], ast.Tuple) else [call.args[0]])]
            o = st.env.get('__iter_start__')
            if o is None:
                raise ContractError('inv_instance outside a loop body')
            sub = St(dict(o.env), o.heap, st.pc)
            for nm in names:
                if nm not in st.env or not isinstance(st.env[nm], SV):
                    raise ContractError(f'inv_instance: {nm} is not bound to a value here')
                sub.env[nm] = st.env[nm]
            self.specmode += 1
            try:
                cond = self.truth(self.ev(call.args[1], sub))
                body = self.truth(self.ev(call.args[2], sub))
            finally:
                self.specmode -= 1
            cond = z3.BoolVal(cond) if isinstance(cond, bool) else cond
            body = z3.BoolVal(body) if isinstance(body, bool) else body
            st.pc.append(z3.Implies(cond, body))
            return
        if h.startswith('let '):
            nm, ex = h[4:].split('=', 1)
            v = self.tosv(self.spec_eval(ex.strip(), st))
            c = fresh(nm.strip(), sort_of(v.ty))
            st.pc.append(c == v.t)
            st.env[nm.strip()] = SV(c, v.ty)
            return
        if h.startswith('mention '):
            # evaluate a ghost term so that the instances of its definitions join the path condition
            self.spec_eval(h[8:], st)
            return
        g = self.spec_bool(h, st)
        self.oblige(st, kind, g, node, label=h)

    def instantiate_at(self, st, consts):
        """instances of the universally quantified hypotheses (one or two integer variables) at the given constants, added to the
        path condition: plain instantiation done by the engine, because the solver's e-matching on triggers that contain index sums
        (a[off + q]) depends on operand order and is not stable from run to run"""
        out = []
        seen = 0

        def walk(f):
            nonlocal seen
            if z3.is_and(f):
                for c in f.children():
                    walk(c)
                return
            if not (z3.is_quantifier(f) and f.is_forall()):
                return
            n = f.num_vars()
            if n > 2 or any(f.var_sort(k) != z3.IntSort() for k in range(n)):
                return
            seen += 1
            body = f.body()
            if n == 1:
                for c in consts:
                    out.append(z3.substitute_vars(body, c))
            else:
                for a in consts:
                    for b in consts:
                        out.append(z3.substitute_vars(body, b, a))
        for f in list(st.pc):
            walk(f)
            if len(out) > 4000:
                break
        for g in out:
            st.pc.append(g)

    def is_ignored(self, s):
        if isinstance(s, ast.Expr) and isinstance(s.value, ast.Constant):
            return True     # docstring
        if not self.spec.ignore:
            return False
        src = norm_src(s, 400)
        for pat in self.spec.ignore:
            if re.match(pat, src):
                # mechanical check: an ignored statement must not store, raise, return, break
                for x in ast.walk(s):
                    if isinstance(x, (ast.Raise, ast.Return, ast.Break, ast.Continue)):
                        raise ContractError('ignored statement contains control flow: ' + src)
                    if isinstance(x, (ast.Assign, ast.AugAssign)):
                        tg = x.targets if isinstance(x, ast.Assign) else [x.target]
                        for t in tg:
                            if not isinstance(t, ast.Name) or not re.match(self.spec_ignore_names(), t.id):
                                raise ContractError('ignored statement assigns program state: ' + src)
                self.ignored_log.append(src)
                return True
        return False

    ignored_log = []

    def spec_ignore_names(self):
        return r'.*time$|^_$'

    def st_Pass(self, s, st):
        return [st]

    def st_Expr(self, s, st):
        self.ev(s.value, st)
        return [st]

    def st_Assert(self, s, st):
        c = self.truth(self.ev(s.test, st))
        if isinstance(c, bool):
            if not c:
                st.flow, st.val = 'raise', 'AssertionError'
            return [st]
        out = []
        a = st.fork()
        if self.feasible(a, c):
            a.pc.append(c)
            out.append(a)
        b = st.fork()
        if self.feasible(b, z3.Not(c)):
            b.pc.append(z3.Not(c))
            b.flow, b.val = 'raise', 'AssertionError'
            out.append(b)
        return out

    def st_Return(self, s, st):
        st.val = self.ev(s.value, st) if s.value is not None else None
        st.flow = 'ret'
        return [st]

    def st_Raise(self, s, st):
        e = s.exc
        nm = ast.unparse(e.func if isinstance(e, ast.Call) else e) if e is not None else 'reraise'
        st.flow, st.val = 'raise', nm
        return [st]

    def st_Break(self, s, st):
        st.flow = 'break'
        return [st]

    def st_Continue(self, s, st):
        st.flow = 'continue'
        return [st]

    def st_Delete(self, s, st):
        for t in s.targets:
            if isinstance(t, ast.Name):
                st.env.pop(t.id, None)
        return [st]

    def st_FunctionDef(self, s, st):
        mi = st.env.get('__mod__')
        st.env[s.name] = FnVal(s, st.env, mi, (self.spec.qualname + '.' + s.name))
        return [st]

    def st_If(self, s, st):
        c = self.truth(self.ev(s.test, st))
        if isinstance(c, bool):
            return self.exec_block(s.body if c else s.orelse, [st])
        if self.pure_scalar_branches(s):
            # if-conversion: both branches only assign scalar expressions -> one path with if-then-else values
            a, b = st.fork(), st.fork()
            nc_ = simp(z3.Not(c))
            base_len = len(st.pc)
            ra = rb = []
            if self.feasible(a, c) and self.feasible(b, nc_):
                a.pc.append(c)
                b.pc.append(nc_)
                n_obl = len(self.obls)
                ra = self.exec_block(s.body, [a])
                rb = self.exec_block(s.orelse, [b])
            if len(ra) == 1 and len(rb) == 1 and ra[0].flow is None and rb[0].flow is None \
                    and all(ra[0].heap[k] is st.heap.get(k) for k in ra[0].heap) and all(rb[0].heap[k] is st.heap.get(k) for k in rb[0].heap):
                names = sorted(set(ra[0].env) | set(rb[0].env))
                ok = True
                merged = {}
                for nm in names:
                    va, vb = ra[0].env.get(nm, st.env.get(nm)), rb[0].env.get(nm, st.env.get(nm))
                    if va is vb:
                        merged[nm] = va
                        continue
                    if va is None or vb is None or isinstance(va, Arr) or isinstance(vb, Arr):
                        ok = False
                        break
                    try:
                        x, y = self.unify2(self.tosv(va), self.tosv(vb))
                    except Unsupported:
                        ok = False
                        break
                    mv = SV(z3.If(c, x.t, y.t), x.ty)
                    if nm in self.spec.name_values:
                        k_ = fresh(nm, sort_of(mv.ty))
                        st.pc.append(k_ == mv.t)
                        mv = SV(k_, mv.ty)
                    merged[nm] = mv
                if ok:
                    # obligations raised inside the branches were recorded with the guarded path conditions;
                    # facts gathered inside a branch (let-bindings, assumed obligations) are kept under its guard
                    for f in ra[0].pc[base_len + 1:]:
                        st.pc.append(z3.Implies(c, f))
                    for f in rb[0].pc[base_len + 1:]:
                        st.pc.append(z3.Implies(nc_, f))
                    st.env.update(merged)
                    return [st]
                else:
                    del self.obls[n_obl:]       # redo the statement by path splitting
        out = []
        a = st.fork()
        if self.feasible(a, c):
            a.pc.append(c)
            out += self.exec_block(s.body, [a])
        b = st
        nc = simp(z3.Not(c))
        if self.feasible(b, nc):
            b.pc.append(nc)
            out += self.exec_block(s.orelse, [b])
        return out

    def pure_scalar_branches(self, s):
        def ok(body):
            for x in body:
                if isinstance(x, ast.Assign):
                    if not all(isinstance(t, ast.Name) for t in x.targets):
                        return False
                    if any(isinstance(y, (ast.Call, ast.Subscript)) for y in ast.walk(x.value)):
                        return False
                elif isinstance(x, ast.Pass):
                    continue
                else:
                    return False
            return True
        return bool(s.body) and ok(s.body) and ok(s.orelse)

    def st_Assign(self, s, st):
        v = self.ev(s.value, st)
        for t in s.targets:
            self.assign(t, v, st, s)
        return [st]

    def st_AnnAssign(self, s, st):
        if s.value is not None:
            self.assign(s.target, self.ev(s.value, st), st, s)
        return [st]

    def assign(self, t, v, st, node):
        if isinstance(t, ast.Name):
            if t.id in self.spec.name_values and isinstance(v, SV) and not z3.is_const(v.t) and not self.specmode:
                # let-binding: name the value so later formulas mention one constant instead of the whole term
                c = fresh(t.id, sort_of(v.ty))
                st.pc.append(c == v.t)
                v = SV(c, v.ty)
            st.env[t.id] = v
        elif isinstance(t, (ast.Tuple, ast.List)):
            if isinstance(v, Arr) and v.ndim == 1 and conc_int(v.shape[0]) == len(t.elts):
                v = [SV(self.sel(st, v, [z3.IntVal(k)]), v.ety) for k in range(len(t.elts))]       # unpacking a short array row
            if not isinstance(v, (tuple, list)) or len(v) != len(t.elts):
                raise Unsupported('tuple unpacking mismatch')
            for e, x in zip(t.elts, v):
                self.assign(e, x, st, node)
        elif isinstance(t, ast.Subscript):
            tv = self.ev(t.value, st)
            if isinstance(tv, dict):
                tv[self.concrete(self.ev(t.slice, st))] = v
                return
            if isinstance(tv, list):
                tv[self.concrete(self.ev(t.slice, st))] = v
                return
            if not isinstance(tv, Arr):
                raise Unsupported('store into ' + type(tv).__name__)
            if tv.readonly:
                self.oblige(st, 'frame', z3.BoolVal(False), node, label='write to read-only ' + norm_src(t))
            r = self.index_view(st, tv, t.slice, t)
            if isinstance(r, Arr):
                from . import library
                library.assign_view(self, st, r, v, node)
            else:
                self.check_footprint(st, tv, r, t, 'w')
                self.sto(st, tv, r, self.store_cast(v, tv, st, node))
        elif isinstance(t, ast.Attribute) and t.attr == 'shape':
            tv = self.ev(t.value, st)
            if isinstance(tv, Arr) and isinstance(v, tuple) and len(v) == 2 and v[0] == -1 and tv.ndim == 2 \
                    and conc_int(tv.shape[1]) == v[1]:
                self.note_assumed('assigning shape (-1, k) to an (N, k) array view is a no-op')
                return
            raise Unsupported('shape assignment')
        else:
            raise Unsupported('assignment target ' + type(t).__name__)

    def st_AugAssign(self, s, st):
        if isinstance(s.target, ast.Name):
            cur = self.ev(s.target, st)
            v = self.ev(s.value, st)
            r = self.binop(s.op, cur, v, st, s)
            # numba keeps the variable's unified type; for reals/ints in INT mode this is the promoted type
            st.env[s.target.id] = r
            return [st]
        if isinstance(s.target, ast.Subscript):
            tv = self.ev(s.target.value, st)
            if not isinstance(tv, Arr):
                raise Unsupported('augmented store into ' + type(tv).__name__)
            r = self.index_view(st, tv, s.target.slice, s.target)
            if isinstance(r, Arr):
                raise Unsupported('augmented slice assignment')
            self.check_footprint(st, tv, r, s.target, 'w')
            cur = SV(self.sel(st, tv, r), tv.ety)
            v = self.ev(s.value, st)
            nv = self.binop(s.op, cur, v, st, s)
            self.sto(st, tv, r, self.store_cast(nv, tv, st, s))
            return [st]
        raise Unsupported('augmented assignment target')

    # prange footprints -------------------------------------------------------------------------
    def check_footprint(self, st, arr, idxs, node, rw):
        ctx = self.prange_ctx
        if ctx is None or self.specmode:
            return
        ctx.check(self, st, arr, idxs, node, rw)

    # ---------------- loops
    def loop_ordinal(self, s):
        return self.loop_ord[id(s)]

    def st_For(self, s, st):
        if s.orelse:
            raise Unsupported('for-else')
        it = self.ev(s.iter, st)
        if isinstance(it, (list, tuple, dict)) or (isinstance(it, RangeVal) and self.concrete_range(it) is not None
                                                    and not self.has_loop_spec(s)):
            seq = list(it) if not isinstance(it, RangeVal) else self.concrete_range(it)
            if len(seq) > 64:
                raise Unsupported('concrete loop too long to unroll')
            states = [st]
            done = []
            for x in seq:
                cur = []
                for q in states:
                    self.assign(s.target, x, q, s)
                    cur.append(q)
                states = []
                for q in self.exec_block(s.body, cur):
                    if q.flow == 'break':
                        q.flow = None
                        done.append(q)
                    elif q.flow == 'continue':
                        q.flow = None
                        states.append(q)
                    elif q.flow is None:
                        states.append(q)
                    else:
                        done.append(q)
            return states + done
        from . import loops
        if isinstance(it, ChunkSeq):
            return loops.symbolic_for(self, s, st, RangeVal(0, SV(it.n, 'int'), 1), elems=it)
        if not isinstance(it, RangeVal):
            raise Unsupported('iteration over ' + type(it).__name__)
        return loops.symbolic_for(self, s, st, it)

    def has_loop_spec(self, s):
        return self.loop_ordinal(s) in self.spec.loops

    def concrete_range(self, r):
        a, b, c = conc_int(simp(I(r.start))), conc_int(simp(I(r.stop))), conc_int(simp(I(r.step)))
        if None in (a, b, c):
            return None
        return list(range(a, b, c))

    def st_While(self, s, st):
        if s.orelse:
            raise Unsupported('while-else')
        from . import loops
        return loops.symbolic_while(self, s, st)

    def st_With(self, s, st):
        raise Unsupported('with statement')

    def st_Try(self, s, st):
        # only the compatibility idiom `try: x = x.method() except AttributeError: pass`: the body is executed and assumed not to
        # raise the handled exception (stated as an assumption); anything else is outside the subset
        ok = (not s.orelse and not s.finalbody and len(s.handlers) == 1 and isinstance(s.handlers[0].type, ast.Name)
              and s.handlers[0].type.id == 'AttributeError' and all(isinstance(x, ast.Pass) for x in s.handlers[0].body))
        if not ok:
            raise Unsupported('try statement')
        self.note_assumed('try/except AttributeError compatibility idiom: the guarded attribute exists (python >= 3.8)')
        outs = self.exec_block(s.body, [st])
        if any(o.flow == 'raise' for o in outs):
            raise Unsupported('raise inside try')
        return outs

    def st_Global(self, s, st):
        return [st]

    def st_Import(self, s, st):
        return [st]

    def st_ImportFrom(self, s, st):
        return [st]

    # ---------------- verifying one function against its spec
    def make_arg(self, name, decl, st):
        """decl: concrete python value | type string 'int' 'real' 'bool' 'u64' ... | array 'real[:]', 'i32[:,3]',
        optionally with numpy dtype suffix 'int[:]@int32'"""
        if isinstance(decl, dict) and decl and all(isinstance(v, str) and re.fullmatch(r'\w+\[[^\]]*\](!ro)?(@\w+)?', v) for v in decl.values()):
            # a dictionary of arrays (concrete keys, symbolic arrays)
            return {k: self.make_arg(f'{name}_{k}', v, st) for k, v in decl.items()}
        if not isinstance(decl, str) or decl.startswith('='):
            return decl[1:] if isinstance(decl, str) else decl
        if decl.startswith('chunks:'):
            # a sequence of read chunks tiling the byte stream <sname> (declared here as well): chunk k = sname[CUT(k) : CUT(k+1)]
            sname = decl[7:]
            arr = self.make_arg(sname, 'int[:]!ro', st)
            arr.dt = BYTES_DT
            st.env[sname] = arr
            cut = z3.Function('CUT', z3.IntSort(), z3.IntSort())
            nch = z3.Int('NCHUNKS')
            a_, b_ = z3.Ints('ca cb')
            st.pc += [nch >= 0, cut(0) == 0, cut(nch) == arr.shape[0],
                      z3.ForAll([a_, b_], z3.Implies(z3.And(0 <= a_, a_ <= b_, b_ <= nch), cut(a_) <= cut(b_)), patterns=[z3.MultiPattern(cut(a_), cut(b_))])]
            self.ghost['CUT'] = lambda k: SV(cut(simp(I(k))), 'int')
            self.ghost['CUT']._pyvc_ghost = True
            self.ghost['NCHUNKS'] = SV(nch, 'int')
            return ChunkSeq(arr, cut, nch)
        npname = None
        if '@' in decl:
            decl, npname = decl.split('@')
        ro = False
        if decl.endswith('!ro'):
            decl, ro = decl[:-3], True
        m = re.fullmatch(r'(\w+)\[([^\]]*)\]', decl)
        if m:
            ety = m.group(1)
            dims = [d.strip() for d in m.group(2).split(',')]
            shape = []
            for k, d in enumerate(dims):
                if d == ':':
                    ln = z3.Int(f'len_{name}' if len(dims) == 1 else f'len_{name}_{k}')
                    st.pc.append(ln >= 0)
                    shape.append(ln)
                else:
                    shape.append(z3.IntVal(int(d)))
            dt = None
            if npname:
                dt = np_dtype(npname, 'bv' if is_bv(ety) else 'int')
            elif ety == 'real':
                dt = DT('real', 'float64')
            elif is_bv(ety):
                b, sg = BVT[ety]
                dt = DT(ety, ('int' if sg else 'uint') + str(b), b, sg)
            elif ety == 'int':
                dt = DT('int', 'int64', 64, True)
            return self.new_array(st, name, shape, ety, dt, readonly=ro)
        if decl in ('int', 'real', 'bool') or is_bv(decl):
            return SV(z3.Const(name, sort_of(decl)), decl)
        raise ContractError('bad argument declaration ' + decl)

    def verify(self, spec):
        """generate all obligations of one function under one argument configuration"""
        self.spec = spec
        self.ghost = {}
        self.axioms = []
        self.unfolders = {}
        self.prange_ctx = None
        mi = self.mod(spec.file)
        fn = mi.func(spec.qualname)
        self.cur_fn = fn
        self.loop_ord = {}
        k = 0
        for x in ast.walk(fn):
            pass
        # ordinal = order of appearance in source (pre-order, by line/col)
        loops_ = sorted([x for x in ast.walk(fn) if isinstance(x, (ast.For, ast.While))],
                        key=lambda x: (x.lineno, x.col_offset))
        # loops of nested function definitions belong to those functions but keep a global ordinal
        for k, x in enumerate(loops_):
            self.loop_ord[id(x)] = k
        for k in spec.loops:
            if k >= len(loops_):
                raise ContractError(f'{spec.qualname}: loop ordinal {k} not present in the source')
        flags = decorator_flags(fn)
        st = St({'__mod__': mi}, {}, [])
        n0 = len(self.obls)
        body = fn.body
        if spec.slice is not None:
            body = self.slice_body(fn, spec.slice)
            for name, decl in spec.args.items():
                st.env[name] = self.make_arg(name, decl, st)
        else:
            declared = dict(spec.args)
            a = fn.args
            names = [x.arg for x in a.args] + [x.arg for x in a.kwonlyargs]
            defaults = dict(zip([x.arg for x in a.args][len(a.args) - len(a.defaults):], a.defaults))
            for x, d in zip(a.kwonlyargs, a.kw_defaults):
                if d is not None:
                    defaults[x.arg] = d
            for nm in names:
                if nm in declared:
                    st.env[nm] = self.make_arg(nm, declared.pop(nm), st)
                elif nm in defaults:
                    st.env[nm] = self.ev(defaults[nm], St({'__mod__': mi}, {}, []))
                else:
                    raise ContractError(f'{spec.qualname}: parameter {nm} has no declaration in the contract')
            if a.kwarg is not None:
                st.env[a.kwarg.arg] = {}        # no extra keyword arguments (they are only passed through)
            for nm, decl in declared.items():
                if nm.startswith('ghost_'):
                    st.env[nm] = self.make_arg(nm, decl, st)
                else:
                    raise ContractError(f'{spec.qualname}: contract declares unknown parameter {nm}')
        entry = St(dict(st.env), dict(st.heap), st.pc)
        if spec.ghosts is not None:
            spec.ghosts(GhostCtx(self, entry))
        if getattr(spec, 'opaque_mul', False):
            cx, cy = z3.Reals('cx cy')
            self.axioms.append(z3.ForAll([cx, cy], RMUL(cx, cy) == RMUL(cy, cx), patterns=[RMUL(cx, cy)]))
        st.pc.extend(self.axioms)
        st.env['__old__'] = entry
        for r in spec.requires:
            st.pc.append(self.spec_bool(r, st))
        self.requires_pc = list(st.pc)
        for h in spec.pre_hints:
            self.hint(st, h, None)
        self.flags = flags
        outs = self.exec_block(body, [st])
        nret = 0
        for o in outs:
            if o.flow == 'raise':
                exc = o.val
                cond = [c for e, c in spec.rejects if e == exc]
                if cond:
                    g = self.spec_bool(cond[0], St(dict(entry.env), entry.heap, o.pc))
                    self.oblige(o, 'rejects', g, None, label=f'{exc} only if {cond[0]}')
                elif exc in spec.allow_raise:
                    pass
                else:
                    self.oblige(o, 'noraise', z3.BoolVal(False), None, label=f'unexpected {exc}')
                continue
            if o.flow in ('break', 'continue'):
                raise Unsupported('break/continue outside loop')
            nret += 1
            o.env['result'] = o.val
            o.env['__old__'] = entry
            for e, c in spec.rejects:
                g = self.spec_bool(c, St(dict(entry.env), entry.heap, o.pc))
                self.oblige(o, 'accepts', z3.Not(g), None, label=f'returns normally only if not ({c})')
            for h in spec.post_hints:
                self.hint(o, h, None)
            for e in spec.ensures:
                if isinstance(e, tuple):
                    e, hs = e
                    for h in hs:
                        self.hint(o, h, None)
                self.oblige(o, 'post', self.spec_bool(e, o), None, label=e)
            if spec.frame is not None:
                for nm, v in entry.env.items():
                    if isinstance(v, Arr) and nm not in spec.frame:
                        if not (o.heap[v.base] is entry.heap[v.base] or o.heap[v.base].eq(entry.heap[v.base])):
                            self.oblige(o, 'frame', o.heap[v.base] == entry.heap[v.base], None,
                                        label=f'{nm} unchanged')
                        else:
                            self.oblige(o, 'frame', z3.BoolVal(True), None, label=f'{nm} unchanged')
        info = dict(file=spec.file, qualname=spec.qualname, name=spec.name, source_sha=mi.func_hash(spec.qualname),
                    flags=sorted(flags), paths=len(outs), returning_paths=nret,
                    obligations=len(self.obls) - n0, pruned_paths=self.nprune)
        self.fninfo.append(info)
        return outs

    def slice_body(self, fn, sl):
        """contract names a statement slice of a long function: (first_prefix, last_prefix) on top-level statements"""
        first, last = sl
        srcs = [norm_src(x, 300) for x in fn.body]
        try:
            i0 = next(i for i, s in enumerate(srcs) if s.startswith(first))
            if last.startswith('<'):       # exclusive end marker: stop before the first statement starting with it
                i1 = next(i for i, s in enumerate(srcs) if i > i0 and s.startswith(last[1:])) - 1
            else:
                i1 = max(i for i, s in enumerate(srcs) if s.startswith(last))
        except (StopIteration, ValueError):
            raise ContractError(f'{fn.name}: slice markers not found')
        return fn.body[i0:i1 + 1]


class GhostCtx:
    def __init__(self, eng, entry):
        self.eng = eng
        self.entry = entry

    def arg(self, name):
        return self.entry.env[name]

    def arr_term(self, name):
        a = self.entry.env[name]
        return self.entry.heap[a.base]

    def fn(self, name, pyfunc):
        pyfunc._pyvc_ghost = True
        self.eng.ghost[name] = pyfunc

    def axiom(self, f):
        self.eng.axioms.append(f)

    def define(self, name, argtys, retty, body, quantified=False):
        """opaque ghost function with a definitional axiom: quantified invariants mention only the symbol,
        ground instances of the definition are found by e-matching on the pattern name(args)"""
        F = z3.Function(name, *[sort_of(t) for t in argtys], sort_of(retty))
        vs = [z3.Const(f'{name}_a{k}', sort_of(t)) for k, t in enumerate(argtys)]
        rhs = body(*[SV(v, t) for v, t in zip(vs, argtys)])
        rhs = self.eng.tosv(rhs)
        if quantified:
            self.eng.axioms.append(z3.ForAll(vs, F(*vs) == rhs.t, patterns=[F(*vs)]))
        eng = self.eng

        def call(*args):
            ts = []
            for a, t in zip(args, argtys):
                a = eng.tosv(a)
                if a.ty != t:
                    if t == 'real':
                        a = eng.toreal(a)
                    elif is_bv(t):
                        a = eng.bvcast(a, t) if is_bv(a.ty) else eng.bvcast(eng.int_to_bv_literal(a), t)
                    elif t == 'int' and a.ty == 'bool':
                        a = SV(I(a), 'int')
                    else:
                        raise ContractError(f'ghost {name}: argument of type {a.ty}, expected {t}')
                ts.append(simp(a.t))
            app = F(*ts)
            if not eng.mentions_bound(ts):
                # ground application: add the instance of the definition (sound anywhere: F is a pure function)
                inst = app == z3.substitute(rhs.t, *zip(vs, ts))
                eng.pending_defs.append(inst)
            return SV(app, retty)
        self.fn(name, call)
        return F

    def unfolder(self, name, gen):
        self.eng.unfolders[name] = gen


class _Poison:
    def __repr__(self):
        return 'POISON'


POISON = _Poison()

POW = z3.Function('pow', z3.RealSort(), z3.RealSort(), z3.RealSort())
RMUL = z3.Function('rmul', z3.RealSort(), z3.RealSort(), z3.RealSort())      # FnSpec(opaque_mul=True): products / quotients of non-constant reals
RDIV = z3.Function('rdiv', z3.RealSort(), z3.RealSort(), z3.RealSort())

NP_DTYPES = {'float32', 'float64', 'int8', 'int16', 'int32', 'int64', 'uint8', 'uint16', 'uint32', 'uint64',
             'bool_', 'bool8', 'complex64', 'complex128'}

ARR_METHODS = {'sum', 'cumsum', 'astype', 'reshape', 'argsort', 'copy', 'view', 'fill', 'max', 'min', 'conj', 'real'}

PY_BUILTINS = {'len', 'int', 'float', 'bool', 'min', 'max', 'abs', 'round', 'range', 'tuple', 'list', 'dict',
               'isinstance', 'print', 'enumerate', 'zip', 'type', 'str', 'sorted',
               # contract language
               'forall', 'exists', 'implies', 'old', 'ite', 'real', 'toint', 'floor', 'iff', 'select', 'arrlen', 'sqrt', 'voff', 'memoryview',
               'ValueError', 'TypeError'}

PYOPS = {ast.Add: lambda a, b: a + b, ast.Sub: lambda a, b: a - b, ast.Mult: lambda a, b: a * b,
         ast.Div: lambda a, b: a / b, ast.FloorDiv: lambda a, b: a // b, ast.Mod: lambda a, b: a % b,
         ast.Pow: lambda a, b: a ** b, ast.LShift: lambda a, b: a << b, ast.RShift: lambda a, b: a >> b,
         ast.BitAnd: lambda a, b: a & b, ast.BitOr: lambda a, b: a | b, ast.BitXor: lambda a, b: a ^ b}


def numba_unify(a, b):
    """numba integer unification (observed on numba 0.67; re-validated by the run-time cross-check)"""
    if a == b:
        return a
    ba, sa = BVT[a]
    bb, sb = BVT[b]
    if sa == sb:
        return ('i' if sa else 'u') + str(max(ba, bb))
    # mixed signedness: signed type wide enough to hold both
    sbits, ubits = (ba, bb) if sa else (bb, ba)
    need = max(sbits, ubits * 2)
    if need > 64:
        raise Unsupported('int64/uint64 mix promotes to float64 in numba')
    return 'i' + str(need)


BYTES_DT = DT('int', 'bytes', 8, False)
