"""pyvc - a small deductive verifier for the numba/Python kernels of abacusutils.

The engine re-reads the *current* source under the repository root on every run, interprets the real
function ASTs symbolically (concrete structure, symbolic numbers), and emits verification conditions
(bounds, callee preconditions, loop invariants, postconditions, frames, prange footprint disjointness)
that are discharged by z3 (and cvc5 as a second opinion).  Contracts live in /verif/contracts (sidecar);
the repository is not edited.
"""
