"""Builtins, numpy/numba library calls (assumed contracts, DESIGN 3.5) and the contract-language functions."""
import ast

import z3

from .engine import (SV, Arr, DT, RangeVal, Unsupported, ContractError, I, is_bv, BVT, conc_int, simp, realval,
                     fresh, sort_of, St, np_dtype, Bound, has_quant)

BUILTINS = {}
METHODS = {}


def builtin(*names):
    def deco(f):
        for n in names:
            BUILTINS[n] = f
        return f
    return deco


def method(*names):
    def deco(f):
        for n in names:
            METHODS[n] = f
        return f
    return deco


# ---------------------------------------------------------------- python builtins
@builtin('len')
def _len(e, st, args, kw, n):
    a = args[0]
    if isinstance(a, Arr):
        if a.ndim == 0:
            raise Unsupported('len of 0-d')
        s = a.shape[0]
        c = conc_int(s)
        return c if c is not None else SV(s, 'int')
    return len(a)


@builtin('arrlen')
def _arrlen(e, st, args, kw, n):
    return _len(e, st, args, kw, n)


@builtin('int')
def _int(e, st, args, kw, n):
    v = args[0]
    if isinstance(v, SV):
        if v.ty == 'bool':
            return SV(I(v), 'int')
        if v.ty == 'int':
            return v
        if v.ty == 'real':
            return SV(z3.If(v.t >= 0, z3.ToInt(v.t), -z3.ToInt(-v.t)), 'int')
        if is_bv(v.ty):
            if e.spec.mode == 'bv':
                return e.bvcast(v, 'i64')
            return SV(I(v), 'int')
    return int(v)


@builtin('float')
def _float(e, st, args, kw, n):
    v = args[0]
    if isinstance(v, SV):
        return e.toreal(v)
    return float(v)


@builtin('bool')
def _bool(e, st, args, kw, n):
    b = e.truth(args[0])
    return b if isinstance(b, bool) else SV(b, 'bool')


def _minmax(is_min):
    def f(e, st, args, kw, n):
        if len(args) == 1 and isinstance(args[0], (list, tuple)):
            args = list(args[0])
        if all(not isinstance(a, SV) for a in args):
            return (min if is_min else max)(args)
        r = e.tosv(args[0])
        for a in args[1:]:
            a = e.tosv(a)
            r, a = e.unify2(r, a)
            if is_bv(r.ty):
                lt = (r.t < a.t) if BVT[r.ty][1] else z3.ULT(r.t, a.t)
            else:
                lt = r.t < a.t
            # python: min returns first minimal; value-wise the same
            r = SV(z3.If(lt, r.t, a.t) if is_min else z3.If(lt, a.t, r.t), r.ty)
        return r
    return f


BUILTINS['min'] = _minmax(True)
BUILTINS['max'] = _minmax(False)


@builtin('abs', 'numpy.abs', 'numpy.fabs')
def _abs(e, st, args, kw, n):
    v = args[0]
    if isinstance(v, SV):
        if v.ty in ('int', 'real'):
            return SV(z3.If(v.t >= 0, v.t, -v.t), v.ty)
        raise Unsupported('abs of ' + v.ty)
    return abs(v)


def round_half_even(x):
    """real -> int, round half to even (python round / numba round with one argument)"""
    f = z3.ToInt(x + z3.RealVal('1/2'))      # floor(x + 1/2)
    tie = z3.ToReal(f) == x + z3.RealVal('1/2')
    return z3.If(z3.And(tie, f % 2 != 0), f - 1, f)


@builtin('round')
def _round(e, st, args, kw, n):
    if len(args) != 1:
        raise Unsupported('round with ndigits')
    v = args[0]
    if isinstance(v, SV):
        if v.ty == 'real':
            return SV(round_half_even(v.t), 'int')
        if v.ty == 'int':
            return v
        raise Unsupported('round of ' + v.ty)
    return round(v)


@builtin('numpy.rint', 'numpy.round')
def _rint(e, st, args, kw, n):
    v = args[0]
    if isinstance(v, tuple) and v and v[0] == 'linspace':
        return v          # np.rint(np.linspace(0, N, T+1)).astype(int64): same assumed contract (monotone, 0 .. N)
    if isinstance(v, SV) and v.ty == 'real':
        return SV(z3.ToReal(round_half_even(v.t)), 'real')
    raise Unsupported('rint')


@builtin('numpy.floor')
def _floor(e, st, args, kw, n):
    v = args[0]
    if isinstance(v, SV) and v.ty == 'real':
        return SV(z3.ToReal(z3.ToInt(v.t)), 'real')
    raise Unsupported('floor')


SQRTF = z3.Function('SQRT', z3.RealSort(), z3.RealSort())


@builtin('numpy.sqrt', 'math.sqrt', 'sqrt')
def _sqrt(e, st, args, kw, n):
    v = args[0]
    if isinstance(v, (int, float)):
        v = e.tosv(float(v))
    if isinstance(v, SV):
        v = e.toreal(v)
        # sqrt is a function (equal arguments give the same term); each application contributes its defining instance
        r = SQRTF(simp(v.t))
        if not e.specmode:
            e.oblige(st, 'domain', v.t >= 0, n)
        if getattr(e.spec, 'opaque_mul', False):
            # products are uninterpreted in this contract: keep only the linear consequences of the definition
            fact = z3.And(r >= 0, (v.t > 0) == (r > 0))
        else:
            fact = z3.And(r >= 0, r * r == v.t)
        if e.specmode:
            # in a contract expression nothing guarantees the domain (the radicand may mention bound variables): guarded instance
            fact = z3.Implies(v.t >= 0, fact)
        if e.mentions_bound([v.t]):
            return SV(r, 'real')        # under a quantifier: no ground instance to add
        if not any(fact.eq(x) for x in st.pc[-30:]):
            st.pc.append(fact)
        return SV(r, 'real')
    raise Unsupported('sqrt')


@builtin('range')
def _range(e, st, args, kw, n):
    if len(args) == 1:
        return RangeVal(0, args[0], 1)
    if len(args) == 2:
        return RangeVal(args[0], args[1], 1)
    return RangeVal(args[0], args[1], args[2])


@builtin('numba.prange')
def _prange(e, st, args, kw, n):
    r = _range(e, st, args, kw, n)
    r.parallel = True
    return r


@builtin('tuple')
def _tuple(e, st, args, kw, n):
    return tuple(args[0]) if args else ()


@builtin('list')
def _list(e, st, args, kw, n):
    return list(args[0]) if args else []


@builtin('dict')
def _dict(e, st, args, kw, n):
    d = dict(args[0]) if args else {}
    d.update(kw)
    return d


@builtin('isinstance')
def _isinstance(e, st, args, kw, n):
    v, t = args
    ts = t if isinstance(t, tuple) else (t,)
    for x in ts:
        nm = x.name if isinstance(x, Builtin_) else getattr(x, 'np_name', None)
        if nm in ('int', 'numpy.integer') and (isinstance(v, int) and not isinstance(v, bool) or (isinstance(v, SV) and v.ty == 'int')):
            return True
        if nm == 'tuple' and isinstance(v, tuple):
            return True
        if nm == 'list' and isinstance(v, list):
            return True
        if nm == 'str' and isinstance(v, str):
            return True
        if nm == 'float' and (isinstance(v, float) or (isinstance(v, SV) and v.ty == 'real')):
            return True
    return False


from .engine import Builtin as Builtin_  # noqa: E402


@builtin('print', 'warnings.warn', 'numba.set_num_threads', 'gc.collect', 'timeit.default_timer')
def _noop(e, st, args, kw, n):
    return None


@builtin('numba.get_num_threads')
def _get_num_threads(e, st, args, kw, n):
    return e.symconst('NUMBA_NUM_THREADS', 'int', [lambda t: t >= 1])


@builtin('numba.get_thread_id')
def _get_thread_id(e, st, args, kw, n):
    ctx = e.prange_ctx
    if ctx is None:
        raise Unsupported('get_thread_id outside prange')
    return ctx.thread_id(e, st)


# ---------------------------------------------------------------- numpy allocation
def _shape(e, v):
    if isinstance(v, (tuple, list)):
        return [I(x) for x in v]
    return [I(v)]


def _dtype_arg(e, kw, args, pos, default='float64'):
    d = kw.get('dtype', args[pos] if len(args) > pos else None)
    if d is None:
        return np_dtype(default, e.spec.mode)
    if isinstance(d, DT):
        return d
    raise Unsupported('dtype argument')


@builtin('numpy.empty')
def _empty(e, st, args, kw, n):
    dt = _dtype_arg(e, kw, args, 1)
    e.note_assumed('numpy.empty: fresh array of the given shape with arbitrary contents')
    return e.new_array(st, 'empty', _shape(e, args[0]), dt.tag, dt)


@builtin('numpy.zeros')
def _zeros(e, st, args, kw, n):
    dt = _dtype_arg(e, kw, args, 1)
    e.note_assumed('numpy.zeros: fresh array of the given shape, all elements zero')
    zero = {'real': z3.RealVal(0), 'int': z3.IntVal(0), 'bool': z3.BoolVal(False)}.get(dt.tag)
    if zero is None:
        zero = z3.BitVecVal(0, BVT[dt.tag][0])
    sh = _shape(e, args[0])
    a = e.new_array(st, 'zeros', sh, dt.tag, dt)
    st.heap[a.base] = e.const_array(len(sh), dt.tag, zero)
    return a


@builtin('numpy.empty_like')
def _empty_like(e, st, args, kw, n):
    a = args[0]
    if not isinstance(a, Arr):
        raise Unsupported('empty_like of non-array')
    e.note_assumed('numpy.empty_like: fresh array with the shape and dtype of its argument')
    return e.new_array(st, 'empty_like', a.shape, a.ety, a.dt)


@builtin('numpy.zeros_like')
def _zeros_like(e, st, args, kw, n):
    a = args[0]
    dt = a.dt
    zero = {'real': z3.RealVal(0), 'int': z3.IntVal(0), 'bool': z3.BoolVal(False)}.get(a.ety)
    r = e.new_array(st, 'zeros', a.shape, a.ety, dt)
    st.heap[r.base] = e.const_array(len(a.shape), a.ety, zero)
    return r


@builtin('numpy.linspace')
def _linspace(e, st, args, kw, n):
    # only the idiom np.linspace(0, N, T + 1) is supported; the result is consumed by .astype(int64)
    lo, hi, num = args[0], args[1], args[2]
    if conc_int(simp(I(lo))) != 0:
        raise Unsupported('linspace with non-zero start')
    return ('linspace', I(hi), I(num))


def linspace_int_array(e, st, hi, num, name='tstart'):
    """assumed contract: np.linspace(0, N, T+1) converted to integers is non-decreasing, starts at 0, ends at N"""
    e.note_assumed('numpy.linspace(0,N,T+1) -> int: T+1 entries, first 0, last N, non-decreasing')
    a = e.new_array(st, name, [num], 'int', DT('int', 'int64', 64, True))
    t = st.heap[a.base]
    j = z3.Int('lj!%d' % id(a) if False else 'lj')
    st.pc.append(z3.Select(t, 0) == 0)
    st.pc.append(z3.Select(t, num - 1) == hi)
    st.pc.append(z3.ForAll([j], z3.Implies(z3.And(j >= 0, j < num - 1), z3.Select(t, j) <= z3.Select(t, j + 1)),
                           patterns=[z3.Select(t, j + 1)]))
    j2 = z3.Int('lj2')
    st.pc.append(z3.ForAll([j, j2], z3.Implies(z3.And(0 <= j, j <= j2, j2 < num), z3.Select(t, j) <= z3.Select(t, j2)),
                           patterns=[z3.MultiPattern(z3.Select(t, j), z3.Select(t, j2))]))
    k = z3.Int('lk')
    st.pc.append(z3.ForAll([k], z3.Implies(z3.And(k >= 0, k < num), z3.And(z3.Select(t, k) >= 0, z3.Select(t, k) <= hi)),
                           patterns=[z3.Select(t, k)]))
    return a


@method('astype')
def _astype(e, st, obj, args, kw, n):
    if isinstance(obj, Arr):
        dt = args[0] if args else kw.get('dtype')
        if isinstance(dt, DT) and dt.tag == obj.ety:
            e.note_assumed('ndarray.astype to a dtype of the same kind is treated as the identity (values mathematical)')
            return obj
        raise Unsupported('astype with conversion')
    if isinstance(obj, tuple) and obj and obj[0] == 'linspace':
        dt = args[0]
        if not (isinstance(dt, DT) and dt.tag == 'int'):
            raise Unsupported('linspace astype non-int')
        return linspace_int_array(e, st, obj[1], obj[2])
    raise Unsupported('astype')


def ev_attr_on_tuple(v, a):
    return None


# ---------------------------------------------------------------- contract language
def _spec_only(e):
    if not e.specmode:
        raise Unsupported('contract-language function used in program code')


@builtin('implies')
def _implies(e, st, args, kw, n):
    raise ContractError('implies is handled lazily')


@builtin('ite')
def _ite(e, st, args, kw, n):
    c = e.truth(args[0])
    if isinstance(c, bool):
        return args[1] if c else args[2]
    a, b = e.unify2(e.tosv(args[1]), e.tosv(args[2]))
    return SV(z3.If(c, a.t, b.t), a.ty)


@builtin('iff')
def _iff(e, st, args, kw, n):
    a, b = e.truth(args[0]), e.truth(args[1])
    a = z3.BoolVal(a) if isinstance(a, bool) else a
    b = z3.BoolVal(b) if isinstance(b, bool) else b
    return SV(a == b, 'bool')


@builtin('real')
def _real(e, st, args, kw, n):
    return e.toreal(e.tosv(args[0]))


@builtin('toint', 'floor')
def _toint(e, st, args, kw, n):
    v = e.tosv(args[0])
    if v.ty == 'int':
        return v
    return SV(z3.ToInt(e.toreal(v).t), 'int')


def quantifier(e, st, n, forall):
    """forall(j, lo, hi, body) / forall((j,k), cond, body) evaluated lazily (bound variables)"""
    a = n.args
    if len(a) == 4:
        var = a[0].id
        v = z3.Int(var + '?b')
        sub = St(dict(st.env), st.heap, st.pc)
        sub.env[var] = SV(v, 'int')
        lo, hi = I(e.ev(a[1], st)), I(e.ev(a[2], st))
        rng = z3.And(lo <= v, v < hi)
        e.bound_keep.append(v)
        e.bound_ids[v.get_id()] = e.bound_ids.get(v.get_id(), 0) + 1
        try:
            body = e.truth(e.ev(a[3], sub))
        finally:
            e.bound_ids[v.get_id()] -= 1
            if not e.bound_ids[v.get_id()]:
                del e.bound_ids[v.get_id()]
        body = z3.BoolVal(body) if isinstance(body, bool) else body
        if forall:
            return SV(z3.ForAll([v], z3.Implies(rng, body)), 'bool')
        return SV(z3.Exists([v], z3.And(rng, body)), 'bool')
    if len(a) == 3:
        names = [x.id for x in (a[0].elts if isinstance(a[0], ast.Tuple) else [a[0]])]
        vs = [z3.Int(x + '?b') for x in names]
        sub = St(dict(st.env), st.heap, st.pc)
        for nm, v in zip(names, vs):
            sub.env[nm] = SV(v, 'int')
            e.bound_keep.append(v)
            e.bound_ids[v.get_id()] = e.bound_ids.get(v.get_id(), 0) + 1000000     # never released: names are reserved
        cond = e.truth(e.ev(a[1], sub))
        cond = z3.BoolVal(cond) if isinstance(cond, bool) else cond
        body = e.truth(e.ev(a[2], sub))
        body = z3.BoolVal(body) if isinstance(body, bool) else body
        if forall:
            return SV(z3.ForAll(vs, z3.Implies(cond, body)), 'bool')
        return SV(z3.Exists(vs, z3.And(cond, body)), 'bool')
    raise ContractError('bad quantifier')


# ---------------------------------------------------------------- slice / view assignment
def assign_view(e, st, view, v, node):
    """dst[view] = scalar | array view (same shape).  New heap term defined by one quantified fact."""
    old = st.heap[view.base]
    nb = len(view.axes)
    # fast path: assigning a scalar to an entire sub-array selected by fixed leading indices
    if not isinstance(v, Arr):
        val = e.store_cast(v, view, st, node)
    new = fresh(view.base + '_s', old.sort())
    vs = [z3.Int(f'a{k}!{next(_ctr)}') for k in range(nb)]
    inside = []
    for ax, q in zip(view.axes, vs):
        inside.append(q == ax[1] if ax[0] == 'i' else z3.And(q >= ax[1], q < ax[1] + ax[2]))
    inside = z3.And(*inside)

    def selall(t, idx):
        for q in idx:
            t = z3.Select(t, q)
        return t
    if isinstance(v, Arr):
        if v.ndim != view.ndim:
            raise Unsupported('broadcasting slice assignment')
        # shape agreement is a numpy run-time check -> obligation
        for a, b in zip(view.shape, v.shape):
            e.oblige(st, 'shape', a == b, node)
        rel = [q - ax[1] for ax, q in zip(view.axes, vs) if ax[0] == 'r']
        src = []
        it = iter(rel)
        for ax in v.axes:
            src.append(ax[1] if ax[0] == 'i' else ax[1] + next(it))
        srcval = selall(st.heap[v.base] if v.base != view.base else old, src)
        if v.ety != view.ety:
            srcval = e.store_cast(SV(srcval, v.ety), view, st, node)
        rhs = srcval
    else:
        rhs = val
    st.pc.append(z3.ForAll(vs, z3.If(inside, selall(new, vs) == rhs, selall(new, vs) == selall(old, vs)),
                           patterns=[selall(new, vs)]))
    st.heap[view.base] = new
    if e.prange_ctx is not None:
        e.prange_ctx.check_view(e, st, view, node, 'w')


import itertools  # noqa: E402
_ctr = itertools.count()


# ---------------------------------------------------------------- numpy object-level glue used by the thin wrappers
@builtin('numpy.ascontiguousarray')
def _ascontiguousarray(e, st, args, kw, n):
    """the engine's arrays carry no stride information, so the result MAY be a copy: a fresh array with the same shape and contents
    (reads agree; a store into the result is not a store into the argument)"""
    a = args[0]
    dt = kw.get('dtype', args[1] if len(args) > 1 else None)
    if not isinstance(a, Arr) or not (dt is None or (isinstance(dt, DT) and a.dt is not None and dt.np_name == a.dt.np_name)):
        raise Unsupported('ascontiguousarray with conversion')
    e.note_assumed('numpy.ascontiguousarray: same shape and contents, possibly a copy (never assumed to alias its argument)')
    r = e.new_array(st, 'contig', a.shape, a.ety, a.dt)
    vs = [z3.Int(f'cg{k}!{next(_ctr)}') for k in range(a.ndim)]

    def selall(t, idx):
        for q in idx:
            t = z3.Select(t, q)
        return t
    lhs = selall(st.heap[r.base], vs)
    st.pc.append(z3.ForAll(vs, lhs == e.sel(st, a, vs), patterns=[lhs]))
    return r


@builtin('numpy.asanyarray', 'numpy.asarray')
def _asanyarray(e, st, args, kw, n):
    a = args[0]
    dt = kw.get('dtype', args[1] if len(args) > 1 else None)
    if isinstance(a, Arr) and (dt is None or (isinstance(dt, DT) and a.dt is not None and dt.np_name == a.dt.np_name)):
        e.note_assumed('numpy.asanyarray/ascontiguousarray of an ndarray that already has the requested dtype returns the same data')
        return a
    raise Unsupported('asanyarray with conversion')


@builtin('numpy.isclose')
def _isclose(e, st, args, kw, n):
    a, b = args[0], args[1]
    if isinstance(a, SV) and isinstance(b, SV) and a.t.eq(b.t):
        return True
    if not isinstance(a, SV) and not isinstance(b, SV):
        return abs(a - b) <= 1e-8 + 1e-5 * abs(b)
    raise Unsupported('isclose on distinct symbolic values')


@method('reshape')
def _reshape(e, st, obj, args, kw, n):
    shp = tuple(args[0]) if len(args) == 1 and isinstance(args[0], (tuple, list)) else tuple(args)
    if isinstance(obj, Arr) and shp == (-1,) and obj.ndim >= 1:
        if obj.ndim == 1:
            return obj
        # flattening: modelled as a 1-D array of length size (contents not related to the original: safety contracts only)
        e.note_assumed('ndarray.reshape(-1) of a contiguous array has prod(shape) elements (element values abstracted)')
        size = z3.IntVal(1)
        for d in obj.shape:
            size = size * d
        a = e.new_array(st, 'flat', [simp(size)], obj.ety, obj.dt)
        st.pc.append(simp(size) >= 0)
        return a
    if isinstance(obj, Arr) and obj.ndim == 2 and len(shp) == 2 and shp[0] == -1:
        c = conc_int(obj.shape[1])
        if c is not None and c == shp[1]:
            e.note_assumed('ndarray.reshape(-1, k) of an (N, k) array is the identity view')
            return obj
    raise Unsupported('reshape ' + repr(shp))


@method('view')
def _view(e, st, obj, args, kw, n):
    if isinstance(obj, Arr) and not args and not kw:
        return Arr(obj.base, list(obj.axes), obj.ety, obj.dt, obj.readonly)
    raise Unsupported('view with arguments')


@builtin('sorted')
def _sorted(e, st, args, kw, n):
    return sorted(args[0])


@builtin('str')
def _str(e, st, args, kw, n):
    return str(args[0])


@builtin('type')
def _type(e, st, args, kw, n):
    v = args[0]
    for nm, t in (('str', str), ('bool', bool), ('int', int), ('list', list), ('tuple', tuple), ('dict', dict), ('float', float)):
        if type(v) is t:
            return Builtin_(nm)
    raise Unsupported('type() of symbolic value')


@builtin('numpy.array')
def _np_array(e, st, args, kw, n):
    """a concrete table (module-level constant such as FACTORIAL_LOOKUP_TABLE)"""
    v = args[0]
    if not isinstance(v, (list, tuple)) or not all((isinstance(x, int) and not isinstance(x, bool)) or (isinstance(x, SV) and x.ty == 'int') for x in v):
        raise Unsupported('numpy.array of non-integer data')
    dt = kw.get('dtype', args[1] if len(args) > 1 else None)
    a = e.new_array(st, 'table', [len(v)], 'int', dt if isinstance(dt, DT) and dt.tag == 'int' else DT('int', 'int64', 64, True), readonly=True)
    t = z3.K(z3.IntSort(), z3.IntVal(0))
    for k, x in enumerate(v):
        t = z3.Store(t, k, I(x))
    st.heap[a.base] = t
    return a


def array_scalar_op(e, st, op, arr, sc, n):
    """whole-array arithmetic array (+|-|*) scalar on a 1-D array: a fresh array defined elementwise"""
    if not (isinstance(arr, Arr) and arr.ndim == 1):
        raise Unsupported('whole-array arithmetic on a multi-dimensional array')
    sc = e.tosv(sc)
    ety = 'real' if (arr.ety == 'real' or sc.ty == 'real') else arr.ety
    new = e.new_array(st, 'elementwise', arr.shape, ety, arr.dt if ety == arr.ety else DT('real', 'float64'))
    q = z3.Int('ew!%d' % next(_ctr))
    old = SV(e.sel(st, arr, [q]), arr.ety)
    val = e.binop(op, old, sc, st, n)
    val = e.store_cast(val, new, st, n)
    st.pc.append(z3.ForAll([q], z3.Select(st.heap[new.base], q) == val, patterns=[z3.Select(st.heap[new.base], q)]))
    return new


@builtin('numpy.sum')
def _npsum(e, st, args, kw, n):
    if isinstance(args[0], Arr):
        e.note_assumed('numpy.sum of an array is an unspecified scalar of the element type (value abstracted)')
        return SV(fresh('sum', sort_of('real' if args[0].ety == 'real' else args[0].ety)), 'real' if args[0].ety == 'real' else args[0].ety)
    raise Unsupported('sum of non-array')


@method('sum')
def _msum(e, st, obj, args, kw, n):
    if isinstance(obj, Arr) and not args and not kw:
        return _npsum(e, st, [obj], {}, n)
    raise Unsupported('sum with axis')


@builtin('numpy.exp', 'numpy.log10', 'numpy.log', 'math.erfc', 'math.erf', 'numpy.cos', 'numpy.sin', 'numpy.conj')
def _uninterp(e, st, args, kw, n):
    """transcendental functions: uninterpreted (congruence only)"""
    v = e.toreal(e.tosv(args[0])) if not isinstance(args[0], Arr) else None
    if v is None:
        raise Unsupported('elementwise transcendental on an array')
    name = 'UF_' + (n.func.attr if isinstance(n.func, ast.Attribute) else getattr(n.func, 'id', 'f'))
    return SV(z3.Function(name, z3.RealSort(), z3.RealSort())(simp(v.t)), 'real')


@builtin('numba.typed.Dict.empty')
def _typed_dict_empty(e, st, args, kw, n):
    return {}


# ---------------------------------------------------------------- bytes / memoryview / struct glue (object code of the ASDF codec)
@builtin('memoryview')
def _memoryview(e, st, args, kw, n):
    if not isinstance(args[0], Arr) or args[0].ndim != 1:
        raise Unsupported('memoryview of a non-buffer')
    return args[0]


@method('cast')
def _mv_cast(e, st, obj, args, kw, n):
    if args != ['c'] and args != ['B']:
        raise Unsupported('memoryview.cast to a non-byte format')
    return obj


@method('toreadonly')
def _mv_readonly(e, st, obj, args, kw, n):
    return obj


@method('tobytes')
def _tobytes(e, st, obj, args, kw, n):
    if not isinstance(obj, Arr) or obj.ndim != 1 or (obj.dt is not None and obj.dt.itemsize != 1):
        raise Unsupported('tobytes of a non-byte buffer')
    from .engine import BYTES_DT
    empty = e.new_array(st, 'bytes', [z3.IntVal(0)], 'int', BYTES_DT, readonly=True)
    return e.concat_bytes(st, empty, obj)


@builtin('numpy.frombuffer')
def _frombuffer(e, st, args, kw, n):
    a = args[0]
    dt = _dtype_arg(e, kw, args, 1)
    if not isinstance(a, Arr) or a.ndim != 1 or dt.itemsize != 1:
        raise Unsupported('frombuffer other than a byte view of a 1-D buffer')
    e.note_assumed('numpy.frombuffer(buf, dtype=<1-byte type>): a view of the same bytes (elements are modelled as raw byte values, '
                   'so signed / unsigned reinterpretation is the identity)')
    return Arr(a.base, list(a.axes), a.ety, a.dt, a.readonly)


@builtin('struct.unpack')
def _struct_unpack(e, st, args, kw, n):
    fmt, buf = args
    if fmt != '!I' or not isinstance(buf, Arr) or buf.ndim != 1:
        raise Unsupported('struct.unpack other than big-endian uint32 of a byte buffer')
    e.oblige(st, 'struct_len', buf.shape[0] == 4, n, label='struct.unpack("!I", x) needs exactly 4 bytes')
    b = [e.sel(st, buf, [z3.IntVal(k)]) for k in range(4)]
    return (SV(b[0] * 16777216 + b[1] * 65536 + b[2] * 256 + b[3], 'int'),)


@builtin('time.perf_counter', 'time.time')
def _perf_counter(e, st, args, kw, n):
    from .engine import fresh
    return SV(fresh('clock', z3.RealSort()), 'real')


@builtin('voff')
def _voff(e, st, args, kw, n):
    a = args[0]
    if not isinstance(a, Arr) or a.ndim != 1:
        raise Unsupported('voff of a non-1-D view')
    return SV(a.axes[-1][1], 'int')
