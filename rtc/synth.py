"""E3 support: synthetic, uncompressed CompaSO catalogues whose in-memory arrays are the oracle's ground truth.

Layout (as the loader expects):  <root>/Sim/halos/z0.000/{halo_info,halo_rv_A,halo_rv_B,halo_pid_A,halo_pid_B}/*_NNN.asdf
and  <root>/cleaning/Sim/z0.000/{cleaned_halo_info,cleaned_rvpid}/*_NNN.asdf.  Column names / shapes / dtypes of the raw
halo_info file and the header keys come from the metadata of a real test file (rtc/halo_schema.json, arrays never used).
"""
import json
import os
from pathlib import Path

import numpy as np

HERE = os.path.dirname(os.path.abspath(__file__))
_S = None


def schema():
    global _S
    if _S is None:
        _S = json.load(open(os.path.join(HERE, 'halo_schema.json')))
    return _S


class Truth:
    def __init__(self):
        self.slabs = []        # per superslab: dict(raw=..., rvA=..., rvB=..., pidA=..., pidB=..., clean=..., crv={A:..,B:..}, cpid={...})
        self.box = None
        self.velz = None
        self.ppd = None
        self.groupdir = None
        self.root = None


def make_catalog(root, halos_per_slab, seed=0, box=37.5, velz=2917.0, ppd=64, cleaned=True, max_np=3, slab_numbers=None):
    import asdf
    rng = np.random.default_rng(seed)
    sch = schema()
    hdr = dict(sch['header'])
    hdr.update(BoxSize=box, VelZSpace_to_kms=velz, ppd=float(ppd), SimName='Sim')
    gd = Path(root) / 'Sim' / 'halos' / 'z0.000'
    for sub in ('halo_info', 'halo_rv_A', 'halo_rv_B', 'halo_pid_A', 'halo_pid_B'):
        (gd / sub).mkdir(parents=True, exist_ok=True)
    cd = Path(root) / 'cleaning' / 'Sim' / 'z0.000'
    if cleaned:
        (cd / 'cleaned_halo_info').mkdir(parents=True, exist_ok=True)
        (cd / 'cleaned_rvpid').mkdir(parents=True, exist_ok=True)
    T = Truth()
    T.box, T.velz, T.ppd, T.groupdir, T.root = box, velz, ppd, gd, Path(root)
    T.slab_numbers = list(slab_numbers) if slab_numbers is not None else list(range(len(halos_per_slab)))
    serial = 1
    for s, n in zip(T.slab_numbers, halos_per_slab):
        raw = {}
        for k, (tail, dt) in sch['columns'].items():
            dt = np.dtype(dt)
            shp = (n,) + tuple(tail)
            if dt.kind == 'f':
                raw[k] = (rng.random(shp) * 0.9 + 0.05).astype(dt)
            elif k.endswith('_u16'):
                raw[k] = rng.integers(0, 65340, shp).astype(dt)
            elif k.endswith('_i16'):
                v = rng.integers(0, 32001, shp)
                if n:
                    v.flat[0] = 32000
                    if v.size > 1:
                        v.flat[-1] = 1
                raw[k] = v.astype(dt)
            else:
                raw[k] = rng.integers(0, 1000, shp).astype(dt)
        # keep the three principal dispersions consistent: Min^2 + Max^2 <= 1 so that Mid is real
        for com in ('_com', '_L2com'):
            a = rng.integers(0, 22000, n)
            b = rng.integers(0, 22000, n)
            raw['sigmavMin_to_sigmav3d' + com + '_i16'] = np.minimum(a, b).astype(np.int16)
            raw['sigmavMax_to_sigmav3d' + com + '_i16'] = np.maximum(a, b).astype(np.int16)
        raw['id'] = (np.arange(n) + 1000 * s).astype(np.uint64)
        raw['N'] = rng.integers(20, 5000, n).astype(np.uint32)
        slab = dict(raw=raw, number=s)
        for AB in 'AB':
            npout = rng.integers(0, max_np + 1, n).astype(np.uint32)
            gaps = rng.integers(0, 3, n)                      # unindexed L0 particles between halos
            st = np.zeros(n, dtype=np.uint64)
            pos = int(rng.integers(0, 3))
            for h in range(n):
                pos += int(gaps[h])
                st[h] = pos
                pos += int(npout[h])
            tot = pos + int(rng.integers(0, 3))
            raw['npout' + AB], raw['npstart' + AB] = npout, st
            # every record carries a unique serial number in its position bits / pid so that slices identify particles
            rv = np.zeros((tot, 3), dtype=np.int64)
            pid = np.zeros(tot, dtype=np.uint64)
            for r in range(tot):
                rv[r] = [((serial * 7 + c) % (1 << 19)) << 12 | int(rng.integers(0, 4096)) for c in range(3)]
                pid[r] = np.uint64((serial % 32000) | ((serial * 3 % 32000) << 16) | ((serial * 5 % 32000) << 32) | (int(rng.integers(0, 2)) << 48) |
                                   (int(rng.integers(0, 1024)) << 49))
                serial += 1
            rv = rv.astype(np.uint32).view(np.int32) if tot else np.zeros((0, 3), np.int32)
            rv = np.ascontiguousarray(rv).reshape(tot, 3)
            slab['rv' + AB], slab['pid' + AB] = rv, pid
            asdf.AsdfFile({'header': hdr, 'data': {'rvint': rv}}).write_to(gd / f'halo_rv_{AB}' / f'halo_rv_{AB}_{s:03d}.asdf')
            asdf.AsdfFile({'header': hdr, 'data': {'packedpid': pid}}).write_to(gd / f'halo_pid_{AB}' / f'halo_pid_{AB}_{s:03d}.asdf')
        asdf.AsdfFile({'header': hdr, 'data': raw}).write_to(gd / 'halo_info' / f'halo_info_{s:03d}.asdf')
        if cleaned:
            d = {}
            away = rng.random(n) < 0.3
            d['N_total'] = np.where(away, 0, raw['N'] + rng.integers(0, 5, n)).astype(np.uint32)
            d['N_merge'] = rng.integers(0, 5, n).astype(np.uint32)
            d['haloindex'] = (np.arange(n) + 10 ** 6 * s).astype(np.uint64)
            d['is_merged_to'] = np.where(away, rng.integers(0, max(n, 1), n), -1).astype(np.int64)
            d['haloindex_mainprog'] = rng.integers(0, 1000, n).astype(np.int64)
            d['v_L2com_mainprog'] = rng.random((n, 3)).astype(np.float32)
            d['N_mainprog'] = rng.integers(0, 1000, (n, 2)).astype(np.uint32)
            d['sigmav3d_L2com_mainprog'] = rng.random((n, 2)).astype(np.float32)
            d['vcirc_max_L2com_mainprog'] = rng.random((n, 2)).astype(np.float32)
            rvp = {}
            for AB in 'AB':
                npm = np.where(away, 0, rng.integers(0, 3, n)).astype(np.uint32)
                gaps = rng.integers(0, 2, n)
                stm = np.zeros(n, dtype=np.int64)
                pos = 0
                for h in range(n):
                    pos += int(gaps[h])
                    stm[h] = pos
                    pos += int(npm[h])
                tot = pos + 1
                d[f'npstart{AB}_merge'], d[f'npout{AB}_merge'] = stm, npm
                crv = np.zeros((tot, 3), dtype=np.int64)
                cpid = np.zeros(tot, dtype=np.uint64)
                for r in range(tot):
                    crv[r] = [((serial * 7 + c) % (1 << 19)) << 12 | int(rng.integers(0, 4096)) for c in range(3)]
                    cpid[r] = np.uint64((serial % 32000) | ((serial * 3 % 32000) << 16) | ((serial * 5 % 32000) << 32))
                    serial += 1
                crv = np.ascontiguousarray(crv.astype(np.uint32).view(np.int32)).reshape(tot, 3)
                rvp[f'rvint_{AB}'], rvp[f'packedpid_{AB}'] = crv, cpid
                slab['crv' + AB], slab['cpid' + AB] = crv, cpid
            chdr = dict(hdr)
            chdr['TimeSliceRedshiftsPrev'] = [0.1, 0.2]
            asdf.AsdfFile({'header': chdr, 'data': d}).write_to(cd / 'cleaned_halo_info' / f'cleaned_halo_info_{s:03d}.asdf')
            asdf.AsdfFile({'header': chdr, 'data': rvp}).write_to(cd / 'cleaned_rvpid' / f'cleaned_rvpid_{s:03d}.asdf')
            slab['clean'] = d
        T.slabs.append(slab)
    return T


def halo_files(T, which=None):
    idx = range(len(T.slabs)) if which is None else which
    return [str(T.groupdir / 'halo_info' / f'halo_info_{T.slabs[i]["number"]:03d}.asdf') for i in idx]


def expected_particles(T, cleaned, AB, slabs=None, masks=None):
    """independent oracle: for the selected slabs (file order) and per-slab boolean masks, the list over kept halos of
    (rvint rows, pid words): originals addressed by start/count in the halo's own slab file - none for a cleaned-away
    halo - followed (cleaned) by the merged-in records from the cleaning file"""
    out = []
    idx = range(len(T.slabs)) if slabs is None else slabs
    for k, i in enumerate(idx):
        sl = T.slabs[i]
        raw = sl['raw']
        n = len(raw['N'])
        m = np.ones(n, dtype=bool) if masks is None else np.asarray(masks[k], dtype=bool)
        for h in range(n):
            if not m[h]:
                continue
            a, c = int(raw['npstart' + AB][h]), int(raw['npout' + AB][h])
            rv, pid = sl['rv' + AB][a:a + c], sl['pid' + AB][a:a + c]
            if cleaned:
                cl = sl['clean']
                if int(cl['N_total'][h]) == 0:
                    rv, pid = rv[:0], pid[:0]
                ms, mc = int(cl[f'npstart{AB}_merge'][h]), int(cl[f'npout{AB}_merge'][h])
                rv = np.concatenate([rv, sl['crv' + AB][ms:ms + mc]])
                pid = np.concatenate([pid, sl['cpid' + AB][ms:ms + mc]])
            out.append((rv, pid))
    return out


def check_slices(cat, T, cleaned, load_AB, slabs=None, masks=None, raw_cols=True):
    """property C01 on a loaded catalogue (passthrough or unpacked): returns None or a description"""
    from contracts import C04
    sub = cat.subsamples
    off = 0
    for AB in load_AB:
        exp = expected_particles(T, cleaned, AB, slabs, masks)
        if len(exp) != len(cat.halos):
            return f'{len(cat.halos)} halo rows, expected {len(exp)}'
        for h, (rv, pid) in enumerate(exp):
            s0, n0 = int(cat.halos['npstart' + AB][h]), int(cat.halos['npout' + AB][h])
            if s0 != off:
                return f'halo row {h} subsample {AB}: npstart {s0}, expected contiguous offset {off} (A before B, halo-row order)'
            if n0 != len(rv):
                return f'halo row {h} subsample {AB}: npout {n0}, expected {len(rv)} particles'
            if 'rvint' in sub.colnames and not np.array_equal(np.asarray(sub['rvint'][s0:s0 + n0]), rv):
                return f'halo row {h} subsample {AB}: slice does not hold the halo\'s own rvint records'
            if 'packedpid' in sub.colnames and not np.array_equal(np.asarray(sub['packedpid'][s0:s0 + n0]), pid):
                return f'halo row {h} subsample {AB}: slice does not hold the halo\'s own pid records'
            if 'pos' in sub.colnames or 'vel' in sub.colnames:
                for r in range(n0):
                    for c in range(3):
                        p, v = C04.ref_rvint(rv[r, c], T.box)
                        if 'pos' in sub.colnames and abs(float(sub['pos'][s0 + r, c]) - p) > 3e-6 * T.box:
                            return f'halo row {h} subsample {AB} particle {r}: pos {float(sub["pos"][s0 + r, c])} expected {p}'
                        if 'vel' in sub.colnames and abs(float(sub['vel'][s0 + r, c]) - v) > 1e-3:
                            return f'halo row {h} subsample {AB} particle {r}: vel {float(sub["vel"][s0 + r, c])} expected {v}'
            if 'pid' in sub.colnames:
                want = [C04.ref_pid(x, T.box, T.ppd)['pid'] for x in pid]
                if [int(x) for x in sub['pid'][s0:s0 + n0]] != want:
                    return f'halo row {h} subsample {AB}: pid column does not match the halo\'s own records'
            # every other column unpacked from the pid word (unpack_bits): same records, same rows
            extra = [c for c in ('lagr_idx', 'lagr_pos', 'tagged', 'density') if c in sub.colnames]
            if extra and n0:
                refs = [C04.ref_pid(x, T.box, T.ppd) for x in pid]
                for c in extra:
                    got = np.asarray(sub[c][s0:s0 + n0], dtype=np.float64).reshape(n0, -1)
                    want = np.asarray([np.atleast_1d(r[c]) for r in refs], dtype=np.float64).reshape(n0, -1)
                    tol = 3e-6 * T.box if c == 'lagr_pos' else (1e-6 * np.maximum(np.abs(want), 1.0) if c == 'density' else 0.0)
                    if got.shape != want.shape or not np.all(np.abs(got - want) <= tol):
                        return f'halo row {h} subsample {AB}: column {c} does not match the halo\'s own pid records (got {got.tolist()[:3]}, expected {want.tolist()[:3]})'
            off += n0
    if off != len(sub):
        return f'slice lengths sum to {off}, subsample table has {len(sub)} rows'
    return None
